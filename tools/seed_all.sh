#!/bin/bash
# usage: seed_all.sh [tier] [ids...] : re-runs every seeded change in /verif/seeded against the quick (default) check of its own
# property with the CURRENT harness; records caught / number of alarms / first summary in meta.json ("rerun"), restores /repo
# and the evidence directory after each. Prints one line per change; exit 1 if any change goes unreported.
set -u
TIER=${1:-quick}; shift || true
cd /verif
IDS=${@:-$(ls seeded)}
MISSED=0
for ID in $IDS; do
  P=$(python3 -c "import json;print(json.load(open('/verif/seeded/$ID/meta.json'))['property'])")
  git -C /repo diff --quiet || { echo "/repo is dirty"; exit 2; }
  git -C /repo apply /verif/seeded/$ID/patch.diff || { echo "$ID: patch does not apply"; MISSED=1; continue; }
  OUT=$(PV_NO_MIRI=1 ./check $P $TIER 2>/dev/null | grep -E "^(VIOLATION|OK|INCONCLUSIVE|  )" | head -2 | cut -c1-300)
  N=$(python3 -c "import json;e=json.load(open('/verif/evidence/$P.json'));print(e['coverage'].get('alarms_raised',0), e['violations'])")
  git -C /repo checkout -- .
  git -C /verif checkout -- evidence 2>/dev/null
  case "$OUT" in VIOLATION*) C=caught;; *) C=MISSED; MISSED=1;; esac
  echo "$ID $P $C alarms/violations=$N"
  python3 - "$ID" "$P" "$C" "$N" "$OUT" "$TIER" <<'PY'
import json,sys
id,p,c,n,out,tier=sys.argv[1:7]
f='/verif/seeded/'+id+'/meta.json'
m=json.load(open(f)); m["rerun_with_final_harness"]={"property":p,"tier":tier,"caught":c=="caught","alarms_raised_and_violations_listed":n,"output":out}
json.dump(m,open(f,'w'),indent=1)
PY
done
exit $MISSED
