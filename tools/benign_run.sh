#!/bin/bash
# usage: benign_run.sh <id> [props...] : applies /verif/benign/<id>/patch.diff (a property-PRESERVING change) to /repo,
# runs the quick checks of all (or the given) properties, records any alarm in meta.json, restores /repo and evidence.
# Every VIOLATION here is a false alarm of the machinery (after confirming that the change really preserves the property).
set -u
ID=$1; shift
PROPS=${@:-C01 C02 C03 C04 C05 C06 C07 C08 C09 C10 C11 C12 C13 C14 C15 C16 C17 C18 C19 C20}
cd /verif
git -C /repo diff --quiet || { echo "/repo is dirty"; exit 2; }
git -C /repo apply /verif/benign/$ID/patch.diff || { echo "patch does not apply to /repo"; exit 2; }
for P in $PROPS; do
  OUT=$(./check $P quick 2>/dev/null | grep -E "^(VIOLATION|OK|INCONCLUSIVE|  )" | head -3 | cut -c1-500)
  echo "== $ID / $P: $OUT"
  python3 - "$ID" "$P" "$OUT" <<'PY'
import json,sys
id,p,out=sys.argv[1:4]
f='/verif/benign/'+id+'/meta.json'
m=json.load(open(f)); m.setdefault("quick_checks_against_it",{})[p]={"silent": out.startswith("OK"), "output": out}
json.dump(m,open(f,'w'),indent=1)
PY
done
git -C /repo checkout -- . ; git -C /repo status --short
git -C /verif checkout -- evidence 2>/dev/null
