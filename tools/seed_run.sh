#!/bin/bash
# usage: seed_run.sh <seed-id> <prop> [more props...] : applies /verif/seeded/<id>/patch.diff to /repo, runs the quick
# checks, records the outcome in meta.json, and restores /repo.
set -u
ID=$1; shift
cd /verif
git -C /repo diff --quiet || { echo "/repo is dirty"; exit 2; }
git -C /repo apply /verif/seeded/$ID/patch.diff || { echo "patch does not apply to /repo"; exit 2; }
for P in "$@"; do
  OUT=$(./check $P quick 2>/dev/null | grep -E "^(VIOLATION|OK|INCONCLUSIVE|  )" | head -3 | cut -c1-400)
  RC=$?
  echo "== $ID / $P: $OUT"
  python3 - "$ID" "$P" "$OUT" <<'PY'
import json,sys
id,p,out=sys.argv[1:4]
f='/verif/seeded/'+id+'/meta.json'
m=json.load(open(f)); m.setdefault("checks_run_against_it",{})[p]={"caught": out.startswith("VIOLATION"), "output": out}
json.dump(m,open(f,'w'),indent=1)
PY
done
git -C /repo checkout -- . ; git -C /repo status --short
# evidence files were rewritten by runs against a modified tree: restore them from git
git -C /verif checkout -- evidence 2>/dev/null
