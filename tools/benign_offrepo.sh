#!/bin/bash
# runs the quick tier of all 20 properties against a COPY of /repo with a benign patch applied (does not touch /repo)
B=$1
rm -rf /tmp/repoB /tmp/hB
mkdir -p /tmp/repoB && (cd /repo && git archive HEAD | tar -x -C /tmp/repoB) && (cd /tmp/repoB && git init -q . 2>/dev/null; patch -p1 -s < /verif/benign/$B/patch.diff) || { echo "patch failed"; exit 2; }
mkdir -p /tmp/hB && cp -r /verif/harness/src /verif/harness/Cargo.toml /verif/harness/Cargo.lock /verif/harness/.cargo /tmp/hB/ 
sed -i 's#/repo/pie#/tmp/repoB/pie#; s#/repo/graph#/tmp/repoB/graph#' /tmp/hB/Cargo.toml
(cd /tmp/hB && cargo build --release --offline --quiet 2>&1 | grep -E "^error" -A8 | head -20)
[ -x /tmp/hB/target/release/pv ] || { echo "build failed"; exit 2; }
python3 - "$B" <<'PY'
import json,subprocess,sys
b=sys.argv[1]
known={(f['property'],f['signature']) for f in json.load(open('/verif/known_findings.json'))['findings'] if f['status']=='known'}
bad={}
for p in ['C%02d'%i for i in range(1,21)]:
    out='/tmp/hB/out-%s.json'%p
    r=subprocess.run(['/tmp/hB/target/release/pv','run',p,'quick','1',out],cwd='/verif',capture_output=True,text=True,timeout=1500)
    try: res=json.load(open(out))
    except Exception as e: bad[p]='no result: %s %s'%(e,r.stderr[-300:]); continue
    al=[a for a in res.get('alarms',[]) if a.get('property')==p and (p,a.get('signature')) not in known]
    if al: bad[p]=al[0]['signature']+': '+al[0]['summary'][:300]
    elif res.get('inconclusive'): bad[p]='inconclusive: %s'%res['inconclusive'][:2]
print(b, 'NOT SILENT' if bad else 'silent on all 20', json.dumps(bad)[:1500])
m=json.load(open('/verif/benign/%s/meta.json'%b)); m['quick_checks_against_it']={'mode':'copy of /repo with the patch applied, harness built against the copy, pv run <P> quick 1','not_silent':bad}
json.dump(m,open('/verif/benign/%s/meta.json'%b,'w'),indent=1)
PY
rm -rf /tmp/repoB /tmp/hB
