#!/bin/bash
# usage: seed_offrepo.sh <seed-id> [tier] : runs the check of the seeded change's own property against a COPY of /repo with
# the change applied (harness built against the copy) - for use while /repo itself must stay untouched (a `vp run` is
# active). Records the outcome in meta.json under "rerun_with_final_harness" like seed_all.sh. Scratch under /tmp, removed.
ID=$1; TIER=${2:-quick}
S=/tmp/offrepo-$$
rm -rf $S; mkdir -p $S/repo $S/h
(cd /repo && git archive HEAD | tar -x -C $S/repo) && (cd $S/repo && patch -p1 -s < /verif/seeded/$ID/patch.diff) || { echo "$ID: patch failed"; rm -rf $S; exit 2; }
cp -r /verif/harness/src /verif/harness/Cargo.toml /verif/harness/Cargo.lock /verif/harness/.cargo $S/h/
sed -i "s#/repo/pie#$S/repo/pie#; s#/repo/graph#$S/repo/graph#" $S/h/Cargo.toml
(cd $S/h && cargo build --release --offline --quiet 2>&1 | grep -E "^error" -A8 | head -20)
[ -x $S/h/target/release/pv ] || { echo "$ID: harness does not build against the changed tree"; rm -rf $S; exit 2; }
python3 - "$ID" "$TIER" "$S" <<'PY'
import json,subprocess,sys
id,tier,S=sys.argv[1:4]
f='/verif/seeded/'+id+'/meta.json'
m=json.load(open(f)); p=m['property']
known={(x['property'],x['signature']) for x in json.load(open('/verif/known_findings.json'))['findings'] if x['status']=='known'}
out=S+'/out.json'
r=subprocess.run([S+'/h/target/release/pv','run',p,tier,'1',out],cwd='/verif',capture_output=True,text=True,timeout=3000)
try: res=json.load(open(out))
except Exception as e: print(id,p,'NO RESULT',r.stderr[-300:]); sys.exit(2)
al=[a for a in res.get('alarms',[]) if a.get('property')==p and (p,a.get('signature')) not in known]
caught=bool(al)
print(id,p,'caught' if caught else 'MISSED','alarms=%d'%res.get('alarm_total',0), (al[0]['signature']+': '+al[0]['summary'][:260]) if al else '')
m['rerun_with_final_harness']={'property':p,'tier':tier,'caught':caught,'alarms_raised_and_violations_listed':'%d %d'%(res.get('alarm_total',0),len(al)),'output':(al[0]['summary'][:600] if al else ''),'mode':'copy of /repo with the change applied'}
json.dump(m,open(f,'w'),indent=1)
PY
rm -rf $S
