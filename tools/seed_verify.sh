#!/bin/bash
# usage: seed_verify.sh <seed-id> <worktree> <property> : confirms a sub-agent's seeded change in its scratch worktree
# (existing tests pass with it, demo fails with it and passes without it) and stores it under /verif/seeded/<seed-id>/.
set -u
ID=$1; WT=$2; PROP=$3
cd "$WT" || exit 2
[ -f seed/patch.diff ] || { echo "no patch"; exit 2; }
DEST=/verif/seeded/$ID; mkdir -p "$DEST"
# 1. state: library change applied + demo present (as the agent left it). Move the demo aside for the baseline run.
mkdir -p /tmp/seed-aside-$ID; mv pie/tests/seed_demo.rs /tmp/seed-aside-$ID/ 2>/dev/null; mv graph/tests/seed_demo.rs /tmp/seed-aside-$ID/graph_seed_demo.rs 2>/dev/null
git checkout -- pie/src graph/src 2>/dev/null; git apply seed/patch.diff || { echo "patch does not apply"; exit 2; }
BASE=$(cargo test --workspace --no-fail-fast --offline 2>&1 | grep -E "^test result" | awk '{p+=$4; f+=$6} END {print p" passed "f" failed"}')
echo "baseline with change: $BASE"
[ -f /tmp/seed-aside-$ID/seed_demo.rs ] && cp /tmp/seed-aside-$ID/seed_demo.rs pie/tests/seed_demo.rs; [ -f /tmp/seed-aside-$ID/graph_seed_demo.rs ] && { mkdir -p graph/tests; cp /tmp/seed-aside-$ID/graph_seed_demo.rs graph/tests/seed_demo.rs; }
WITH=$(cargo test -p pie -p pie_graph --test seed_demo --offline --features pie/file_hash_checker 2>&1 | grep -E "^test result" | tail -1)
echo "demo with change: $WITH"
git apply -R seed/patch.diff
WITHOUT=$(cargo test -p pie -p pie_graph --test seed_demo --offline --features pie/file_hash_checker 2>&1 | grep -E "^test result" | tail -1)
echo "demo without change: $WITHOUT"
git apply seed/patch.diff
cp seed/patch.diff "$DEST/patch.diff"; cp pie/tests/seed_demo.rs "$DEST/seed_demo.rs" 2>/dev/null || cp graph/tests/seed_demo.rs "$DEST/seed_demo.rs"; cp seed/meta.json "$DEST/agent_meta.json" 2>/dev/null
python3 - "$ID" "$PROP" "$BASE" "$WITH" "$WITHOUT" <<'PY'
import json,sys,os
id,prop,base,w,wo=sys.argv[1:6]
dest='/verif/seeded/'+id
am={}
try: am=json.load(open(dest+'/agent_meta.json'))
except Exception: pass
meta={"id":id,"property":prop,"summary":am.get("summary",""),"needs_to_manifest":am.get("needs_to_manifest",""),
 "confirmed_in_scratch_worktree":{"existing_tests_with_change":base,"demo_with_change":w,"demo_without_change":wo,
  "commands":["cargo test --workspace --no-fail-fast --offline (demo moved aside)","cargo test -p pie -p pie_graph --test seed_demo --offline --features pie/file_hash_checker (with / without patch)"]},
 "checks_run_against_it":{}}
json.dump(meta,open(dest+'/meta.json','w'),indent=1)
PY
rm -rf /tmp/seed-aside-$ID
