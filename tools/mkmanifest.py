#!/usr/bin/env python3
"""Regenerates /verif/MANIFEST.json from the table below (single source of truth for claimed checks)."""
import json, os, subprocess
VERIF = os.path.dirname(os.path.dirname(os.path.abspath(__file__)))

TRUST = "trusted base: the harness' own reference models (from-scratch interpreter Ref, shadow of declared dependencies, naive graph model, HashMap models), rustc/cargo, and Miri for the sanitizer leg; reach is bounded by the workload generator (see DESIGN.md section 12)"

CHECKS = {
 "C12": dict(cat="exploration", ref="5 (C12)", tech="runtime oracle over an exhaustively enumerated closed domain (all ordered output pairs x 5 checkers) directly, through the object-safe proxy and inside real top-down/bottom-up builds; random richer pairs in thorough",
   text="All 64 ordered pairs of Result<i8,i8> outputs with 4 Ok and 4 Err payloads are enumerated for all five built-in checkers and compared with the documented relation written independently; each pair is also driven through real builds where the requirer must be re-executed iff the relation says inconsistent. Exhaustive on the closed domain, sampled (10^6) on richer types."),
 "C13": dict(cat="exploration", ref="5 (C13)", tech="runtime oracle on real temporary files/directories with explicitly set mtimes on two file systems: all ordered state pairs x 3 checkers, three stamp routes, reader position after stamping, write-open semantics, concatenation-ambiguous directory listings",
   text="File-system states (absent, files around the read-buffer boundary in several content variants, directories incl. name sets that are ambiguous under undelimited concatenation, created in every order) are materialised on ext4 and tmpfs; for all ordered pairs the verdict of each checker must equal equality of its documented aspect, the three stamp routes must agree, stamped readers must still deliver the full content, and Resource::write must create/truncate and refuse directories."),
 "C14": dict(cat="exploration", ref="5 (C14)", tech="model-based runtime monitor: random operation sequences on the real map resource / MapWriter / MapEqualsChecker / typed ResourceState vs HashMap models, incl. a leg inside real builds; Miri shard in thorough",
   text="Random 120-operation sequences over seven key kinds with equal bits and two resource types sharing state types are compared with one HashMap per key kind and one slot per resource type after every operation; a build leg checks correct values, no re-execution on a foreign key type's change, re-execution on the own key's change."),
 "C15": dict(cat="exploration", ref="5 (C15)", tech="runtime monitor over type families with identical bits/hash/debug text used as tasks and resources: == / Hash on &dyn KeyObj for all pairs; executions, outputs and store nodes per (type, value) in generated build sequences; Miri shard in thorough",
   text="Newtypes, tuples and Box/Rc/Arc wrappers of tasks with the same value (and map keys K1/K2 with the same number) are required in random sessions; outputs must equal the per-type formula, the store dump must hold exactly one node per distinct (type, value), no cross-type overlap or hidden-dependency abort may occur, and repeating a session runs nothing."),
 "C16": dict(cat="exploration", ref="5 (C16)", tech="runtime monitor: digest of the complete event log (5 observers, 23 tracker callbacks) of each history compared across in-process replays and replays in 16 child processes with fresh hash seeds; file-backed histories with directories read through HashChecker replayed on fresh instances; Miri shards with different seeds in thorough",
   text="Each history over a wide program is replayed twice in-process with unrelated instances in between and four more times spread over separate processes; every digest of the totally ordered event log must be identical."),
 "C05": dict(cat="exploration", ref="5 (C05), 6 (K4)", tech="fault injection of hidden reads/writes into well-formed programs + runtime monitors: online legality of every returning read / entered write against the shadow, abort-before-modification, final store structure, second oracle from the from-scratch interpreter",
   text="Hidden reads and writes are injected value-conditionally at random tasks and positions so that they become live in some session of a history (writer first, reader first, same or different sessions, top-down and bottom-up). A read that returns, or a write function that is entered, while the shadow of recorded dependencies says reader and writer are unrelated is a violation; so is a value returned where the from-scratch interpreter hits a hidden dependency. The clause about the final store structure is known not to hold (K4)."),
 "C06": dict(cat="exploration", ref="5 (C06)", tech="fault injection of second writers + runtime monitors: online single-writer check against the shadow, abort-before-modification for Context::write, one writer per resource in the store dump, second oracle from the from-scratch interpreter; silence on re-executed writers",
   text="A second writer is injected value-conditionally; any write that proceeds while another task is the recorded writer is a violation, as is an overlap abort after the write function ran, two write edges in the dump, or a value returned where the reference interpreter finds an overlap. Well-formed programs with writers re-executed in every mode must never be reported."),
 "C07": dict(cat="exploration", ref="5 (C07)", tech="fault injection of back requires (cycles of length 1..n, value-conditional) + runtime monitors on the task-side execution stack, step bound, second oracle from the from-scratch interpreter; rank invariant through the store dump",
   text="Requires of earlier or the same task are injected; a task entered while on the execution stack, a require returning a value for a task on the stack, exceeding the step bound, or a returned value where the reference interpreter closes a cycle are violations; the store's topological ranks are checked at every quiescent point."),
 "C19": dict(cat="fault_enumeration", ref="5 (C19), 6 (K5)", tech="crash-point enumeration (panic at every task operation k of a session) and injected diagnosed violations/user panics, each followed by further sessions on the same instance - and, for every other crash point, by a retry through the same still-open Session - under all monitors (after an abort the findings of the C01/C08/C20 monitors count for C19); panic classification; K5 classifier; Miri shard in thorough",
   text="For each chosen session every task operation k is made to panic in turn; after the caught abort the rest of the history must return from-scratch results (static-role programs: no abort at all). Injected violations and task panics are followed by sessions with the cause kept or removed. Any panic that is not a diagnosis or the injected one (BUG..., unwrap/index panics inside /repo) is a violation."),
 "C01": dict(cat="exploration", ref="5 (C01)", tech="runtime monitor: differential check of every Session::require result and of resource contents against a from-scratch reference interpreter, over generated programs x states x top-down histories (random, exhaustive small-scope, file-backed slice); Miri shard in thorough",
   text="Thousands (thorough: hundreds of thousands) of generated task programs with value-dependent structure are driven through histories of top-down sessions and external changes on one real Pie instance; each returned output and the resource contents after each session are compared with a from-scratch interpreter that shares no code with pie (thorough: also with a fresh Pie). Held on the executions listed in the evidence."),
 "C02": dict(cat="exploration", ref="5 (C02)", tech="runtime monitors over the checker-side and task-side event log: at-most-once, justification of every execution by an inconsistent verdict, per-owner validation order = declaration order, idempotence probe session, subset-of-from-scratch for exact checkers",
   text="Every execution in every top-down session must be justified by a verdict of the task's own instrumented checker; the per-owner order of checker calls is compared with the order the task created its dependencies; each session is repeated and must execute nothing; with exact checkers the executed set must be a subset of what the reference interpreter executes."),
 "C03": dict(cat="exploration", ref="5 (C03), 6 (K1)", tech="runtime monitor: after every bottom-up build a probe session requires every known task (no execution, outputs = reference interpreter); K1 classifier for mixed histories; Miri shard in thorough",
   text="After each bottom-up build that was told about every pending change, a probe requires all known tasks: nothing may execute and all outputs/resources must equal the from-scratch reference. Pure histories have no suppression; in mixed histories only executions explained by the recorded finding K1 are tolerated (and counted)."),
 "C04": dict(cat="exploration", ref="5 (C04)", tech="runtime monitor over bottom-up builds: once, justified by a checker verdict, queue order vs transitive requires in the shadow, scheduled => executed; cross-checked with Tracker::schedule_task",
   text="Each bottom-up build's event window is checked for multiplicity, justification (new task or inconsistent verdict earlier in the build), dependency order of scheduled tasks at every execution start, and completion of the queue, over queues of up to ~10 tasks including require-of-scheduled-task during execution and early cut-off."),
 "C08": dict(cat="exploration", ref="5 (C08), 6 (K2)", tech="runtime monitor: guarded read-only store dump compared with a shadow of declared dependencies at every quiescent point, including after aborted builds; leftovers detected at check time",
   text="After every session the hook's dump of the dependency store (edges in order, kinds, cloned checker and stamp objects, outputs) must equal what the task-side and checker-side log says the latest execution of each task declared."),
 "C09": dict(cat="exploration", ref="5 (C09)", tech="runtime monitor: exact user-visible call pattern of Resource/ResourceChecker/OutputChecker calls per context operation, with reader/writer serial numbers and stamps matched back at check time",
   text="For each read/write/written_to/require the log must show exactly the documented sequence on the very reader/writer object, and every later validation must hand back the creating checker value and stamp; verdict use (inconsistent => re-executed next, all consistent => reused) is asserted."),
 "C17": dict(cat="exploration", ref="5 (C17)", tech="runtime monitor: stack discipline and adjacency of a full-fidelity tracker stream inside the common event log; CompositeTracker stream equality; EventTracker contents and every query helper vs an independent implementation",
   text="All 23 tracker callbacks are recorded in the same total order as the task-side events and checked for nesting, for exact agreement with real executions/returns/stamps/verdicts, for identical delivery to both children of a CompositeTracker, and EventTracker's record, indices and ~30 helpers are compared with a reference for every event and key."),
 "C18": dict(cat="fault_enumeration", ref="5 (C18)", tech="fault injection at ResourceChecker::check (armed per owner/resource, unique error serials) + runtime monitors: reported exactly once, owner re-executed/scheduled, no abort, still equal to the reference interpreter",
   text="Failing checkers are armed and disarmed between builds at arbitrary dependencies; each injected error must appear exactly once in dependency_check_errors, must lead to re-execution/scheduling of its owner, must not abort the build, and the results must still equal the from-scratch reference."),
 "C20": dict(cat="exploration", ref="5 (C20), 6 (K3)", tech="runtime monitor: any abort of a well-formed program is a violation; for role-flipping programs every diagnosed abort is compared with from-scratch builds of all known tasks (several orders, strict and collecting) and otherwise must match the stale-edge classifier (K3)",
   text="Well-formed programs must never abort. In role-flipping programs each diagnosed abort must be confirmed by a from-scratch build of all known tasks in the current state, or be explained by one of the four recorded stale-edge patterns; an unexplained abort is a violation."),
 "C10": dict(cat="exploration", ref="5 (C10/C11)", tech="runtime differential monitor: real pie_graph::DAG vs naive adjacency-list model after every operation (exhaustive small-scope + seeded random op sequences); Miri shard in thorough",
   text="Every operation sequence of the small-scope families and tens of thousands of random sequences are executed on the real DAG; after each operation the monitor checks rank bijection, rank order on every edge, the cycle verdict against plain DFS reachability and exact state rollback on rejection. Held-on-what-was-run, not a proof; the right level because the property is a safety property of finite operation sequences fully observable through the public API."),
 "C11": dict(cat="exploration", ref="5 (C10/C11)", tech="runtime differential monitor: all public DAG queries vs naive model for all nodes/pairs after every operation; Miri shard in thorough",
   text="All query functions (direct/transitive edge tests, six adjacency iterators with order and data, both descendant iterators, topo_cmp, removal return values) are compared with a naive model for every node and ordered pair, including stale handles, after every operation of exhaustive small-scope and random sequences."),
}
PENDING_REASON = "check under construction (build phase); will be claimed once its monitor is committed"

def main():
    hooks_commits = subprocess.run(["git", "-C", "/repo", "log", "--format=%H %s"], capture_output=True, text=True).stdout.splitlines()
    hook_shas = [l.split()[0] for l in hooks_commits if "verif hook" in l]
    checks = []
    for pid in sorted(CHECKS):
        c = CHECKS[pid]
        checks.append({
            "property_id": pid,
            "quick_cmd": "./check %s quick" % pid,
            "thorough_cmd": "./check %s thorough" % pid,
            "evidence_file": "/verif/evidence/%s.json" % pid,
            "replay_cmd_template": "./check %s --replay {path}" % pid,
            "engine": "pv",
            "level_claimed": {"category": c["cat"], "text": c["text"], "design_ref": "DESIGN.md section " + c["ref"]},
            "level_note": c.get("note", TRUST),
            "technique": c["tech"],
        })
    na = [{"property_id": "C%02d" % i, "reason": PENDING_REASON} for i in range(1, 21) if "C%02d" % i not in CHECKS]
    m = {
        "version": 1,
        "setup_cmd": "cd /verif/harness && CARGO_NET_OFFLINE=true cargo build --release --offline",
        "hooks": {
            "guard": "gohla_pie_verif",
            "enable": "cargo feature gohla_pie_verif on crate pie; /verif/harness depends on /repo/pie with features [file_hash_checker, gohla_pie_verif], so every check rebuilds /repo's working tree with the hook on",
            "baseline_off_cmd": "cd /repo && cargo test --workspace --no-fail-fast --offline",
            "source_commits": hook_shas,
            "add_only": True,
        },
        "engines": [{"name": "pv", "path": "/verif/harness", "serves_properties": sorted(CHECKS), "kind_free_text": "Rust harness: workload generators, event log, reference models and monitors driving the real pie / pie_graph crates; /verif/check (python) builds it, runs it, applies known_findings.json and writes evidence"}],
        "checks": checks,
        "not_applicable": na,
        "notes": "exit codes of ./check: 0 held (KNOWN-FINDING lines possible), 1 VIOLATION, 2 inconclusive (no VIOLATION line). VERIF_SEED seeds all random choices.",
    }
    if not na:
        del m["not_applicable"]
    with open(os.path.join(VERIF, "MANIFEST.json"), "w") as f:
        json.dump(m, f, indent=1)
        f.write("\n")

if __name__ == "__main__":
    main()
