#!/usr/bin/env python3
"""Regenerates /verif/MANIFEST.json from the table below (single source of truth for claimed checks)."""
import json, os, subprocess
VERIF = os.path.dirname(os.path.dirname(os.path.abspath(__file__)))

TRUST = "trusted base: the harness' own reference models (from-scratch interpreter Ref, shadow of declared dependencies, naive graph model, HashMap models), rustc/cargo, and Miri for the sanitizer leg; reach is bounded by the workload generator (see DESIGN.md section 12)"

CHECKS = {
 "C10": dict(cat="exploration", ref="5 (C10/C11)", tech="runtime differential monitor: real pie_graph::DAG vs naive adjacency-list model after every operation (exhaustive small-scope + seeded random op sequences); Miri shard in thorough",
   text="Every operation sequence of the small-scope families and tens of thousands of random sequences are executed on the real DAG; after each operation the monitor checks rank bijection, rank order on every edge, the cycle verdict against plain DFS reachability and exact state rollback on rejection. Held-on-what-was-run, not a proof; the right level because the property is a safety property of finite operation sequences fully observable through the public API."),
 "C11": dict(cat="exploration", ref="5 (C10/C11)", tech="runtime differential monitor: all public DAG queries vs naive model for all nodes/pairs after every operation; Miri shard in thorough",
   text="All query functions (direct/transitive edge tests, six adjacency iterators with order and data, both descendant iterators, topo_cmp, removal return values) are compared with a naive model for every node and ordered pair, including stale handles, after every operation of exhaustive small-scope and random sequences."),
}
PENDING_REASON = "check under construction (build phase); will be claimed once its monitor is committed"

def main():
    hooks_commits = subprocess.run(["git", "-C", "/repo", "log", "--format=%H %s"], capture_output=True, text=True).stdout.splitlines()
    hook_shas = [l.split()[0] for l in hooks_commits if "verif hook" in l]
    checks = []
    for pid in sorted(CHECKS):
        c = CHECKS[pid]
        checks.append({
            "property_id": pid,
            "quick_cmd": "./check %s quick" % pid,
            "thorough_cmd": "./check %s thorough" % pid,
            "evidence_file": "/verif/evidence/%s.json" % pid,
            "replay_cmd_template": "./check %s --replay {path}" % pid,
            "engine": "pv",
            "level_claimed": {"category": c["cat"], "text": c["text"], "design_ref": "DESIGN.md section " + c["ref"]},
            "level_note": c.get("note", TRUST),
            "technique": c["tech"],
        })
    na = [{"property_id": "C%02d" % i, "reason": PENDING_REASON} for i in range(1, 21) if "C%02d" % i not in CHECKS]
    m = {
        "version": 1,
        "setup_cmd": "cd /verif/harness && CARGO_NET_OFFLINE=true cargo build --release --offline",
        "hooks": {
            "guard": "gohla_pie_verif",
            "enable": "cargo feature gohla_pie_verif on crate pie; /verif/harness depends on /repo/pie with features [file_hash_checker, gohla_pie_verif], so every check rebuilds /repo's working tree with the hook on",
            "baseline_off_cmd": "cd /repo && cargo test --workspace --no-fail-fast --offline",
            "source_commits": hook_shas,
            "add_only": True,
        },
        "engines": [{"name": "pv", "path": "/verif/harness", "serves_properties": sorted(CHECKS), "kind_free_text": "Rust harness: workload generators, event log, reference models and monitors driving the real pie / pie_graph crates; /verif/check (python) builds it, runs it, applies known_findings.json and writes evidence"}],
        "checks": checks,
        "not_applicable": na,
        "notes": "exit codes of ./check: 0 held (KNOWN-FINDING lines possible), 1 VIOLATION, 2 inconclusive (no VIOLATION line). VERIF_SEED seeds all random choices.",
    }
    if not na:
        del m["not_applicable"]
    with open(os.path.join(VERIF, "MANIFEST.json"), "w") as f:
        json.dump(m, f, indent=1)
        f.write("\n")

if __name__ == "__main__":
    main()
