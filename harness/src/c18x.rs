//! C18, direct part: checkers whose *error type* varies (zero-sized unit struct, message-carrying, boxed dyn Error,
//! io::Error), over the map resource. A thread-local switch makes `check` fail; the build must treat the dependency as
//! inconsistent (task re-executed / scheduled), report exactly the errors the checker returned, and not abort.

use std::cell::RefCell;
use std::convert::Infallible;
use std::fmt::{self, Debug, Display};
use std::marker::PhantomData;

use pie::resource::map::{GetGlobalMap, MapKey, MapWriter};
use pie::task::EqualsChecker;
use pie::trait_object::KeyObj;
use pie::{Context, Pie, ResourceChecker, ResourceState, Task};

use crate::report::{Alarm, Report};
use crate::util::{catch, Rng, J};

thread_local! {
  /// keys whose check fails while listed; number of Err values handed out by `check`; executions
  static FAIL: RefCell<Vec<u32>> = const { RefCell::new(Vec::new()) };
  static ERRS: RefCell<u32> = const { RefCell::new(0) };
  static EXECS: RefCell<Vec<(u8, u32)>> = const { RefCell::new(Vec::new()) };
}

#[derive(Clone, Copy, PartialEq, Eq, Hash, Debug)]
pub struct Cell(pub u32);
impl MapKey for Cell { type Value = u32; }

pub trait MkErr: std::error::Error + 'static { fn make(key: u32) -> Self; const NAME: &'static str; }

#[derive(Debug)] pub struct Unavailable;
impl Display for Unavailable { fn fmt(&self, f: &mut fmt::Formatter<'_>) -> fmt::Result { write!(f, "unavailable") } }
impl std::error::Error for Unavailable {}
impl MkErr for Unavailable { fn make(_: u32) -> Self { Unavailable } const NAME: &'static str = "zero-sized unit struct"; }

#[derive(Debug)] pub struct Msg(String);
impl Display for Msg { fn fmt(&self, f: &mut fmt::Formatter<'_>) -> fmt::Result { write!(f, "{}", self.0) } }
impl std::error::Error for Msg {}
impl MkErr for Msg { fn make(k: u32) -> Self { Msg(format!("cannot check cell {}", k)) } const NAME: &'static str = "message-carrying struct"; }

#[derive(Debug)] pub struct Code(u8);
impl Display for Code { fn fmt(&self, f: &mut fmt::Formatter<'_>) -> fmt::Result { write!(f, "code {}", self.0) } }
impl std::error::Error for Code {}
impl MkErr for Code { fn make(k: u32) -> Self { Code(k as u8) } const NAME: &'static str = "one-byte struct"; }

impl MkErr for std::io::Error { fn make(k: u32) -> Self { std::io::Error::new(std::io::ErrorKind::Other, format!("io {}", k)) } const NAME: &'static str = "std::io::Error"; }

/// Equality checker over `Cell` whose `check` fails on demand with an error of type `E`.
pub struct Flaky<E>(PhantomData<fn() -> E>);
impl<E> Flaky<E> { fn new() -> Self { Flaky(PhantomData) } }
impl<E> Clone for Flaky<E> { fn clone(&self) -> Self { Flaky(PhantomData) } }
impl<E> PartialEq for Flaky<E> { fn eq(&self, _: &Self) -> bool { true } }
impl<E> Eq for Flaky<E> {}
impl<E> std::hash::Hash for Flaky<E> { fn hash<H: std::hash::Hasher>(&self, _: &mut H) {} }
impl<E> Debug for Flaky<E> { fn fmt(&self, f: &mut fmt::Formatter<'_>) -> fmt::Result { write!(f, "Flaky") } }

impl<E: MkErr> ResourceChecker<Cell> for Flaky<E> {
  type Stamp = Option<u32>;
  type Error = E;
  fn stamp<RS: ResourceState<Cell>>(&self, key: &Cell, state: &mut RS) -> Result<Self::Stamp, E> { Ok(state.get_global_map().get(key).copied()) }
  fn stamp_reader(&self, _key: &Cell, value: &mut Option<&u32>) -> Result<Self::Stamp, E> { Ok(value.copied()) }
  fn stamp_writer(&self, _key: &Cell, writer: MapWriter<'_, Cell>) -> Result<Self::Stamp, E> { Ok(writer.get().copied()) }
  fn check<RS: ResourceState<Cell>>(&self, key: &Cell, state: &mut RS, stamp: &Self::Stamp) -> Result<Option<impl Debug>, E> {
    if FAIL.with(|f| f.borrow().contains(&key.0)) { ERRS.with(|e| *e.borrow_mut() += 1); return Err(E::make(key.0)); }
    let now = state.get_global_map().get(key).copied();
    Ok(if now != *stamp { Some(now) } else { None })
  }
  fn wrap_error(&self, error: Infallible) -> E { match error {} }
}

/// Leaf(k): reads cell k (and cell k+10 after it) through the flaky checker; Mid(k) requires Leaf(k) and reads cell k+20
/// *after* the require; Top requires Mid(0..3).
pub struct Leaf<E>(u32, PhantomData<fn() -> E>);
pub struct Mid<E>(u32, PhantomData<fn() -> E>);
pub struct Top<E>(PhantomData<fn() -> E>);
macro_rules! key_impls { ($t:ident, $($f:tt),*) => {
  impl<E> Clone for $t<E> { fn clone(&self) -> Self { $t($(self.$f.clone(),)* PhantomData) } }
  impl<E> PartialEq for $t<E> { fn eq(&self, _o: &Self) -> bool { true $(&& self.$f == _o.$f)* } }
  impl<E> Eq for $t<E> {}
  impl<E> std::hash::Hash for $t<E> { fn hash<H: std::hash::Hasher>(&self, _s: &mut H) { $(self.$f.hash(_s);)* } }
  impl<E> Debug for $t<E> { fn fmt(&self, f: &mut fmt::Formatter<'_>) -> fmt::Result { write!(f, stringify!($t))?; $(write!(f, "({})", self.$f)?;)* Ok(()) } }
}; }
key_impls!(Leaf, 0);
key_impls!(Mid, 0);
key_impls!(Top,);

impl<E: MkErr> Task for Leaf<E> {
  type Output = u32;
  fn execute<C: Context>(&self, ctx: &mut C) -> u32 {
    EXECS.with(|e| e.borrow_mut().push((0, self.0)));
    let a = ctx.read(&Cell(self.0), Flaky::<E>::new()).ok().flatten().copied().unwrap_or(0);
    let b = ctx.read(&Cell(self.0 + 10), Flaky::<E>::new()).ok().flatten().copied().unwrap_or(0);
    a * 10 + b
  }
}
impl<E: MkErr> Task for Mid<E> {
  type Output = u32;
  fn execute<C: Context>(&self, ctx: &mut C) -> u32 {
    EXECS.with(|e| e.borrow_mut().push((1, self.0)));
    let l = ctx.require(&Leaf::<E>(self.0, PhantomData), EqualsChecker);
    let c = ctx.read(&Cell(self.0 + 20), Flaky::<E>::new()).ok().flatten().copied().unwrap_or(0);
    l * 100 + c
  }
}
impl<E: MkErr> Task for Top<E> {
  type Output = u32;
  fn execute<C: Context>(&self, ctx: &mut C) -> u32 {
    EXECS.with(|e| e.borrow_mut().push((2, 0)));
    (0..3).fold(0u32, |acc, k| acc.wrapping_mul(31).wrapping_add(ctx.require(&Mid::<E>(k, PhantomData), EqualsChecker)))
  }
}

fn expected(cells: &[u32; 30]) -> u32 {
  (0..3usize).fold(0u32, |acc, k| acc.wrapping_mul(31).wrapping_add((cells[k] * 10 + cells[k + 10]) * 100 + cells[k + 20]))
}

fn one_family<E: MkErr>(seed: u64, case: u64, rep: &mut Report) {
  let mut rng = Rng::derive(seed ^ 0xC18E, case);
  let mut pie: Pie<()> = Pie::default();
  let mut cells = [0u32; 30];
  let mut history: Vec<String> = Vec::new();
  let mut alarm = |rep: &mut Report, sig: &str, msg: String, history: &Vec<String>| {
    rep.alarm(Alarm { property: "C18", signature: format!("error-types:{}", sig), summary: format!("[error-type case {} ({})] {}", case, E::NAME, msg),
      case: J::obj().with("sub", J::s("error-types")).with("case", J::from(case)).with("seed", J::from(seed)),
      detail: J::obj().with("error_type", J::s(E::NAME)).with("history", J::A(history.iter().map(|h| J::s(h.clone())).collect())).with("message", J::s(msg)) });
  };
  FAIL.with(|f| f.borrow_mut().clear());
  let top = Top::<E>(PhantomData);
  for step in 0..rng.range(4, 9) {
    // external changes
    let mut changed: Vec<u32> = Vec::new();
    for _ in 0..rng.below(3) {
      let k = (rng.below(3) + 10 * rng.below(3)) as u32;
      let v = rng.range(1, 5) as u32;
      pie.resource_state_mut::<Cell>().get_global_map_mut().insert(Cell(k), v);
      cells[k as usize] = v;
      changed.push(k);
      history.push(format!("cell {} := {}", k, v));
    }
    // which checks fail in this build
    let failing: Vec<u32> = if step > 0 && rng.chance(2, 3) { (0..rng.range(1, 3)).map(|_| (rng.below(3) + 10 * rng.below(3)) as u32).collect() } else { Vec::new() };
    FAIL.with(|f| *f.borrow_mut() = failing.clone());
    ERRS.with(|e| *e.borrow_mut() = 0);
    EXECS.with(|e| e.borrow_mut().clear());
    let bottom_up = step > 0 && rng.chance(1, 2);
    history.push(format!("build ({}) with failing checks on cells {:?}", if bottom_up { "bottom-up, then require" } else { "top-down" }, failing));
    let res = catch(|| {
      let mut s = pie.new_session();
      if bottom_up {
        let mut bu = s.create_bottom_up_build();
        for k in &changed { bu.schedule_tasks_affected_by(&Cell(*k) as &dyn KeyObj); }
        // a failing check is only met for resources the build is told about
        for k in &failing { bu.schedule_tasks_affected_by(&Cell(*k) as &dyn KeyObj); }
        bu.update_affected_tasks();
      }
      let out = s.require(&top);
      let reported = s.dependency_check_errors().len();
      (out, reported)
    });
    let returned = ERRS.with(|e| *e.borrow());
    let execs: Vec<(u8, u32)> = EXECS.with(|e| e.borrow().clone());
    rep.add("error_type_builds", 1);
    rep.add("checker_errors_returned", returned as u64);
    match res {
      Err(m) => { alarm(rep, "abort", format!("a checker error aborted the build: {}", m), &history); return; }
      Ok((out, reported)) => {
        if out != expected(&cells) { alarm(rep, "stale-output", format!("the build returned {} but executing the tasks on the current cells gives {} ({} checker errors were returned, {} reported)", out, expected(&cells), returned, reported), &history); return; }
        if reported as u32 != returned { alarm(rep, "errors-not-reported", format!("the checkers returned {} errors during this build but dependency_check_errors() holds {}", returned, reported), &history); return; }
        // every failing dependency that was validated forces its owner to run: owners of failing cells
        for k in &failing {
          let owner = if *k >= 20 { (1u8, k - 20) } else { (0u8, k % 10) };
          if returned > 0 && !execs.contains(&owner) && first_failing_dep_checked(&failing, owner) {
            alarm(rep, "not-re-executed", format!("the check of cell {} failed but its owner {:?} was not executed (executed: {:?})", k, owner, execs), &history); return;
          }
        }
      }
    }
    FAIL.with(|f| f.borrow_mut().clear());
  }
  rep.evaluations += 1;
  if history.len() > 6 { rep.nontrivial(seed ^ case.wrapping_mul(0x9E37_79B9) ^ (E::NAME.len() as u64)); }
  rep.sample(|| J::A(history.iter().map(|h| J::s(h.clone())).collect()));
}

/// Whether the failing dependency is certain to have been validated: it is when it is the owner's first dependency
/// that can be inconsistent or failing... kept simple: the owner has exactly the failing cells among its reads, and a
/// failed check was counted, so at least one owner must have run; demand it only when a single owner is involved.
fn first_failing_dep_checked(failing: &[u32], owner: (u8, u32)) -> bool {
  failing.iter().all(|k| (if *k >= 20 { (1u8, k - 20) } else { (0u8, k % 10) }) == owner)
}

pub fn run(tier: &str, seed: u64, replay: Option<u64>) -> Report {
  let n: u64 = if tier == "thorough" { 40_000 } else if tier == "miri" { 2 } else { 2_000 };
  let mut rep = Report::new();
  let range: Vec<u64> = match replay { Some(c) => vec![c], None => (0..n).collect() };
  for i in range {
    match i % 4 {
      0 => one_family::<Unavailable>(seed, i, &mut rep),
      1 => one_family::<Msg>(seed, i, &mut rep),
      2 => one_family::<Code>(seed, i, &mut rep),
      _ => one_family::<std::io::Error>(seed, i, &mut rep),
    }
    if rep.alarm_total >= 20 { break; }
  }
  rep
}
