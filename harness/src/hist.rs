//! Runs one case (program + initial state + history) against a real Pie with every monitor switched on.

use std::collections::BTreeSet;
use std::rc::Rc;

use crate::driver::{Driver, SessKind, SessionRec};
use crate::gen::{Case, Step};
use crate::log::{self, Ev, Verdict, TM};
use crate::monitors::{self, BuStats, Finding};
use crate::prog::Program;
use crate::refm::RefRun;
use crate::report::{Alarm, Report};
use crate::shadow::{Shadow, Status};
use crate::trk::{log_trk, LogTrk};
use crate::util::{Fnv, Rng, J};

#[derive(Clone, Debug)]
pub struct RunOpts {
  pub which: &'static str,
  pub class: &'static str,
  /// The program is in the well-formed class: Ref equality is demanded and no abort may ever happen.
  pub wellformed: bool,
  /// Histories are "pure" (every change batch is reported to a bottom-up build before any partial top-down).
  pub pure_history: bool,
  pub idempotence_probe: bool,
  pub c03_probe: bool,
  pub fresh_pie: bool,
  pub seed: u64,
  pub case_no: u64,
}

pub struct Outcome { pub aborted: bool }

fn session_flags(rec: &SessionRec) -> (usize, usize, usize, usize, usize) {
  // (executions, re-executions of completed tasks, reuses = validated & not executed, consistent verdicts, inconsistent verdicts)
  let mut execs = 0; let mut reexec = 0; let mut cons = 0; let mut incons = 0;
  let mut validated: BTreeSet<u32> = BTreeSet::new();
  let mut executed: BTreeSet<u32> = BTreeSet::new();
  for e in &rec.events {
    match e {
      Ev::ExecStart { task } => { execs += 1; executed.insert(*task); if rec.shadow_before.tasks[*task as usize].status == Status::Completed { reexec += 1; } }
      Ev::Check { owner, verdict, .. } => { validated.insert(*owner); if *verdict == Verdict::Consistent { cons += 1 } else { incons += 1 } }
      Ev::OCheck { owner, consistent, .. } => { validated.insert(*owner); if *consistent { cons += 1 } else { incons += 1 } }
      _ => {}
    }
  }
  let reuse = validated.difference(&executed).count();
  (execs, reexec, reuse, cons, incons)
}

pub struct CaseRunner<'a> {
  pub case: &'a Case,
  pub opts: &'a RunOpts,
  pub rep: &'a mut Report,
  pub drv: Driver<LogTrk>,
  pub prog: Rc<Program>,
  pub step_no: usize,
  pub seen_tm: BTreeSet<TM>,
  pub any_abort: bool,
  /// Tasks executed by a partial top-down session while changes were pending, since the last all-consistent point.
  pub tainted: BTreeSet<u32>,
  /// Resources whose latest write was made by such a task (in a partial top-down session or while being repaired).
  pub tainted_res: BTreeSet<u32>,
  /// Resources changed externally and not rewritten by a task since.
  pub ext_dirty: BTreeSet<u32>,
  /// Emit K1 hits as alarms (curated reproducer) instead of only counting them.
  pub known_as_alarm: bool,
  rng: Rng,
}

impl<'a> CaseRunner<'a> {
  pub fn new(case: &'a Case, opts: &'a RunOpts, rep: &'a mut Report) -> Self {
    let prog = Rc::new(case.prog.clone());
    log::clear();
    crate::cell::faults_reset();
    let drv = Driver::new(prog.clone(), &case.init, log_trk());
    CaseRunner { case, opts, rep, drv, prog, step_no: 0, seen_tm: BTreeSet::new(), any_abort: false, tainted: BTreeSet::new(), tainted_res: BTreeSet::new(), ext_dirty: BTreeSet::new(), known_as_alarm: false, rng: Rng::derive(opts.seed ^ 0x5151, opts.case_no) }
  }

  fn raise(&mut self, fd: &Finding, rec: &SessionRec, what: &str) {
    if fd.sig.starts_with("K2-") && !self.known_as_alarm {
      if fd.prop == self.opts.which { self.rep.known_hit(&fd.sig); }
      return;
    }
    if fd.prop != self.opts.which {
      self.rep.count(&format!("findings_attributed_to_{}", fd.prop));
      return;
    }
    let window = log::render_window(&rec.events, fd.at, 14);
    self.rep.alarm(Alarm {
      property: fd.prop,
      signature: fd.sig.clone(),
      summary: format!("[{} case {} step {} {}] {}", self.opts.class, self.opts.case_no, self.step_no, what, fd.msg),
      case: J::obj().with("sub", J::s(self.opts.class)).with("mode", J::s("random")).with("case", J::from(self.opts.case_no)).with("seed", J::from(self.opts.seed)),
      detail: self.case.to_json()
        .with("failed_at_step", J::from(self.step_no))
        .with("session", J::s(what))
        .with("message", J::s(fd.msg.clone()))
        .with("state_before_session", J::s(format!("{:?}", rec.pre_world)))
        .with("state_after_session", J::s(format!("{:?}", rec.post_world)))
        .with("event_window", J::A(window.into_iter().map(J::S).collect())),
    });
  }

  /// All monitors that apply to any session.
  fn analyze(&mut self, rec: &SessionRec, what: &str, compare_ref: bool) -> Vec<Finding> {
    let mut fs = Vec::new();
    if std::env::var_os("PV_TRACE").is_some() {
      eprintln!("==== step {} {} (session {}) pre={:?} post={:?} aborted={:?}", self.step_no, what, rec.no, rec.pre_world, rec.post_world, rec.aborted);
      for (i, e) in rec.events.iter().enumerate() { if !matches!(e, Ev::Trk(_)) || std::env::var_os("PV_TRACE_TRK").is_some() { eprintln!("{:>5}: {:?}", i, e); } }
    }
    fs.extend(monitors::pass_live(rec));
    fs.extend(monitors::check_dump(rec, &self.drv.shadow));
    fs.extend(monitors::pass_tracker(rec, &mut self.seen_tm));
    fs.extend(monitors::pass_errors(rec));
    match rec.kind {
      SessKind::TopDown => fs.extend(monitors::pass_topdown_validation(rec, 0, &rec.shadow_before)),
      SessKind::BottomUp => {
        let mut st = BuStats { max_queue: 0, executed: 0, scheduled: 0, nested_now: 0, cutoffs: 0 };
        fs.extend(monitors::pass_bottom_up(rec, &mut st));
        self.rep.max("max_bottom_up_queue", st.max_queue as u64);
        self.rep.add("bottom_up_executions", st.executed as u64);
        self.rep.add("bottom_up_tasks_scheduled", st.scheduled as u64);
        self.rep.add("bottom_up_nested_require_scheduled_now", st.nested_now as u64);
        self.rep.add("bottom_up_early_cutoffs", st.cutoffs as u64);
        if let Some(end) = rec.events.iter().position(|e| matches!(e, Ev::BuUpdateRet)) {
          let mut sh = rec.shadow_before.clone();
          for e in &rec.events[..=end] { sh.apply(e); }
          fs.extend(monitors::pass_topdown_validation(rec, end, &sh));
        }
      }
    }
    if let Some(msg) = &rec.aborted {
      self.any_abort = true;
      self.rep.count("aborts");
      let kind = abort_kind(msg);
      self.rep.seen("abort_kinds", kind);
      if self.opts.wellformed {
        fs.push(Finding { prop: "C20", sig: format!("abort-in-well-formed-program:{}", kind), msg: format!("a program that contains no violation in any state aborted: {}", msg), at: rec.events.len().saturating_sub(2) });
        if kind == "internal" || kind == "other" {
          fs.push(Finding { prop: "C19", sig: "internal-error".into(), msg: format!("internal error: {}", msg), at: rec.events.len().saturating_sub(2) });
        }
      }
    }
    if compare_ref && self.opts.wellformed {
      let p = self.prog.clone();
      let (r, outs, roots_only) = monitors::ref_for_session(&p, rec);
      if let Some(v) = &r.viol {
        self.rep.inconclusive.push(format!("generator bug: Ref found {:?} in a well-formed program (case {})", v, self.opts.case_no));
      } else {
        fs.extend(monitors::check_vs_ref(&p, rec, &r, &outs));
        self.rep.add("outputs_compared_with_ref", rec.roots.len() as u64);
        if rec.kind == SessKind::TopDown && p.exact_only() && rec.aborted.is_none() {
          for e in rec.events.iter().enumerate() {
            if let (i, Ev::ExecStart { task }) = e {
              if !roots_only.contains(task) {
                fs.push(Finding { prop: "C02", sig: "executed-but-not-in-from-scratch-build".into(), at: i, msg: format!("T{} was executed, but a from-scratch build of the required roots {:?} in the same state does not execute it (exact checkers only)", task, rec.requested_roots) });
              }
            }
          }
          self.rep.count("subset_clause_sessions");
        }
        if self.opts.fresh_pie && rec.aborted.is_none() {
          // cross-check Ref itself against a fresh Pie on the same state (validates the oracle)
          let saved_faults = crate::cell::FAULTS.with(|f| std::mem::take(&mut *f.borrow_mut()));
          let mut fresh: Driver<()> = Driver::new(self.prog.clone(), &rec.pre_world, ());
          let frec = fresh.session(None, &rec.requested_roots);
          for (k, (root, got)) in frec.roots.iter().enumerate() {
            if outs.get(k).copied().flatten() != Some(*got) {
              fs.push(Finding { prop: "C01", sig: "fresh-pie-disagrees-with-ref".into(), at: 0, msg: format!("a fresh Pie returns {} for T{} but the from-scratch interpreter says {:?}: plain execution itself differs", got, root, outs.get(k)) });
            }
          }
          self.rep.count("fresh_pie_crosschecks");
          let _ = log::take();
          crate::cell::FAULTS.with(|f| *f.borrow_mut() = saved_faults);
        }
      }
    }
    for e in &rec.events {
      match e {
        Ev::ExtSet { res, .. } => { self.ext_dirty.insert(*res); }
        Ev::WriterSet { res, .. } => { self.ext_dirty.remove(res); }
        _ => {}
      }
    }
    let (execs, reexec, reuse, cons, incons) = session_flags(rec);
    self.rep.add("sessions", 1);
    self.rep.add("task_executions", execs as u64);
    self.rep.add("re_executions", reexec as u64);
    self.rep.add("reuses_after_validation", reuse as u64);
    self.rep.add("verdicts_consistent", cons as u64);
    self.rep.add("verdicts_inconsistent", incons as u64);
    self.rep.add("events", rec.events.len() as u64);
    let _ = what;
    fs
  }

  /// C03: after a bottom-up build that was told about every changed resource, no known (completed) task may need
  /// execution. Executions are run through the K1 classifier: the verdict that justified the execution must be on a
  /// producer that a partial top-down session re-executed while changes were pending (or that was itself re-executed
  /// for that reason); anything else is a violation.
  fn classify_stale(&mut self, rec: &SessionRec, from: usize, mut sh: Shadow, explained: &mut BTreeSet<u32>, out: &mut Vec<Finding>) {
    let mut stack: Vec<u32> = Vec::new();
    for (i, e) in rec.events.iter().enumerate().skip(from) {
      match e {
        Ev::ExecStart { task } => {
          if sh.tasks[*task as usize].status == Status::Completed {
            let just = (0..i).rev().map(|j| &rec.events[j]).find(|e| !matches!(e, Ev::Trk(_)));
            let k1 = match just {
              Some(Ev::OCheck { owner, target, consistent: false, .. }) if owner == task => self.tainted.contains(target) || explained.contains(target),
              Some(Ev::Check { owner, res, verdict: Verdict::Inconsistent, .. }) if owner == task => !self.ext_dirty.contains(res) && self.tainted_res.contains(res),
              _ => false,
            };
            if k1 {
              explained.insert(*task);
              self.rep.known_hit("K1-partial-top-down-leaves-requirer-stale");
              if self.known_as_alarm {
                out.push(Finding { prop: "C03", sig: "K1-partial-top-down-leaves-requirer-stale".into(), at: i,
                  msg: format!("T{} was left out of date by the bottom-up build: its producer had been re-executed by an earlier partial top-down build, so its stamp looked consistent", task) });
              }
            } else {
              out.push(Finding { prop: "C03", sig: "stale-after-bottom-up".into(), at: i,
                msg: format!("after a bottom-up build that was told about every changed resource, requiring known task T{} executed it: it had been left out of date (justifying verdict: {:?}; tasks last executed by partial top-down builds: {:?}, resources last written by them: {:?})", task, just, self.tainted, self.tainted_res) });
            }
          }
          stack.push(*task);
        }
        Ev::ExecEnd { .. } => { stack.pop(); }
        Ev::WriterSet { res, .. } => {
          // a repaired (explained) task rewriting a resource passes the taint on; any other write clears it
          if stack.last().map_or(false, |t| explained.contains(t)) { self.tainted_res.insert(*res); } else { self.tainted_res.remove(res); }
        }
        _ => {}
      }
      sh.apply(e);
    }
  }

  fn nontrivial(&mut self, rec: &SessionRec, extra: u64) {
    let (_execs, reexec, reuse, cons, incons) = session_flags(rec);
    let nt = match self.opts.which {
      "C01" | "C02" | "C20" => reexec > 0 && reuse > 0,
      "C03" | "C04" => rec.kind == SessKind::BottomUp && reexec > 0,
      "C08" => reexec > 0,
      "C09" => cons > 0 && incons > 0,
      "C17" => rec.events.iter().filter(|e| matches!(e, Ev::Trk(_))).count() >= 12,
      "C18" => rec.events.iter().any(|e| matches!(e, Ev::Check { verdict: Verdict::Err(_), .. })),
      _ => reexec > 0,
    };
    if nt {
      let mut h = Fnv::default();
      h.u64(self.case.digest()); h.u64(self.step_no as u64); h.u64(extra);
      self.rep.nontrivial(h.0);
    }
  }

  pub fn run(&mut self) -> Outcome {
    self.rep.evaluations += 1;
    let steps = self.case.steps.clone();
    for (i, step) in steps.iter().enumerate() {
      self.step_no = i;
      match step {
        Step::Set(r, v) => self.drv.set(*r, *v),
        Step::Arm(o, r, on) => self.drv.arm(*o, *r, *on),
        Step::TopDown(roots) => {
          let rec = self.drv.session(None, roots);
          let fs = self.analyze(&rec, "top-down session", true);
          for fd in &fs { self.raise(fd, &rec, "top-down session"); }
          self.nontrivial(&rec, 0);
          if rec.aborted.is_some() { if self.opts.wellformed { return Outcome { aborted: true }; } continue; }
          let known: BTreeSet<u32> = self.drv.shadow.known.clone();
          if known.iter().all(|k| roots.contains(k)) {
            self.drv.pending.clear();
            self.tainted.clear();
            self.tainted_res.clear();
          } else if !self.drv.pending.is_empty() {
            // a partial top-down session while changes are pending: what it executed may leave requirers stale (K1)
            for e in &rec.events {
              match e {
                Ev::ExecStart { task } => { self.tainted.insert(*task); }
                Ev::WriterSet { res, .. } => { self.tainted_res.insert(*res); }
                _ => {}
              }
            }
            self.rep.count("partial_top_down_sessions_with_pending_changes");
          }
          if self.opts.idempotence_probe {
            let rec2 = self.drv.session(None, roots);
            let mut fs2 = self.analyze(&rec2, "repeated identical session", true);
            for (i, e) in rec2.events.iter().enumerate() {
              match e {
                Ev::ExecStart { task } => fs2.push(Finding { prop: "C02", sig: "repeat-session-executes".into(), at: i, msg: format!("requiring {:?} again with nothing changed executed T{}", roots, task) }),
                Ev::Check { verdict, owner, res, .. } if *verdict == Verdict::Inconsistent => fs2.push(Finding { prop: "C02", sig: "repeat-session-inconsistent".into(), at: i, msg: format!("requiring {:?} again with nothing changed found T{}'s dependency on R{} inconsistent", roots, owner, res) }),
                Ev::OCheck { consistent: false, owner, target, .. } => fs2.push(Finding { prop: "C02", sig: "repeat-session-inconsistent".into(), at: i, msg: format!("requiring {:?} again with nothing changed found T{}'s dependency on T{} inconsistent", roots, owner, target) }),
                _ => {}
              }
            }
            if rec2.roots != rec.roots && rec2.aborted.is_none() {
              fs2.push(Finding { prop: "C02", sig: "repeat-session-different-output".into(), at: 0, msg: format!("requiring {:?} again with nothing changed returned {:?} instead of {:?}", roots, rec2.roots, rec.roots) });
            }
            for fd in &fs2 { self.raise(fd, &rec2, "repeated identical session"); }
            self.rep.count("idempotence_probes");
            if rec2.aborted.is_some() && self.opts.wellformed { return Outcome { aborted: true }; }
          }
        }
        Step::BottomUp(roots) => {
          let mut changed: Vec<u32> = self.drv.pending.iter().copied().collect();
          self.rng.shuffle(&mut changed);
          let rec = self.drv.session(Some(changed), roots);
          // With tainted producers around (mixed histories, finding K1) the build may legitimately trust stale tasks;
          // then only the probe below decides, through the K1 classifier.
          let clean = self.tainted.is_empty() && self.tainted_res.is_empty();
          let fs = self.analyze(&rec, "bottom-up session", clean);
          // whatever the bottom-up build itself executed or wrote is no longer "last touched by a partial top-down build"
          if let Some(endi) = rec.events.iter().position(|e| matches!(e, Ev::BuUpdateRet)) {
            for e in &rec.events[..endi] {
              match e {
                Ev::ExecStart { task } => { self.tainted.remove(task); }
                Ev::WriterSet { res, .. } => { self.tainted_res.remove(res); }
                _ => {}
              }
            }
          }
          for fd in &fs { self.raise(fd, &rec, "bottom-up session"); }
          self.nontrivial(&rec, 0);
          if rec.aborted.is_some() { if self.opts.wellformed { return Outcome { aborted: true }; } continue; }
          self.drv.pending.clear();
          if self.opts.c03_probe {
            let mut all: Vec<u32> = self.drv.shadow.known.iter().copied().collect();
            self.rng.shuffle(&mut all);
            let probe = self.drv.session(None, &all);
            let mut fsp = self.analyze(&probe, "post-bottom-up probe (require every known task)", true);
            let mut explained: BTreeSet<u32> = BTreeSet::new();
            // the top-down requires issued in the bottom-up session after the update are "afterwards" too
            if let Some(endi) = rec.events.iter().position(|e| matches!(e, Ev::BuUpdateRet)) {
              let mut sh0 = rec.shadow_before.clone();
              for e in &rec.events[..=endi] { sh0.apply(e); }
              let mut fst = Vec::new();
              self.classify_stale(&rec, endi + 1, sh0, &mut explained, &mut fst);
              for fd in &fst { self.raise(fd, &rec, "requires after the bottom-up build (same session)"); }
            }
            self.classify_stale(&probe, 0, probe.shadow_before.clone(), &mut explained, &mut fsp);
            if !clean && explained.is_empty() {
              // the bottom-up session was not compared with Ref because of tainted producers; nothing turned out stale,
              // so its outputs must have been right after all
              let p = self.prog.clone();
              let (r, outs, _) = monitors::ref_for_session(&p, &rec);
              if r.viol.is_none() { for mut fd in monitors::check_vs_ref(&p, &rec, &r, &outs) { fd.prop = "C03"; fd.sig = format!("bottom-up-{}", fd.sig); fsp.push(fd); } }
            }
            if let Some(m) = &probe.aborted {
              fsp.push(Finding { prop: "C03", sig: "abort-after-bottom-up".into(), at: probe.events.len().saturating_sub(2), msg: format!("requiring every known task after a bottom-up build aborted: {}", m) });
            }
            // outputs vs Ref are compared by `analyze` (C01 findings); re-attribute them to C03 for this probe
            for fd in fsp.iter_mut() { if fd.prop == "C01" { fd.prop = "C03"; fd.sig = format!("probe-{}", fd.sig); } }
            for fd in &fsp { self.raise(fd, &probe, "post-bottom-up probe"); }
            self.rep.count("c03_probes");
            self.tainted.clear();
            self.tainted_res.clear();
            self.nontrivial(&probe, 1);
            if probe.aborted.is_some() && self.opts.wellformed { return Outcome { aborted: true }; }
          }
        }
      }
    }
    Outcome { aborted: self.any_abort }
  }
}

pub fn abort_kind(msg: &str) -> &'static str {
  if msg.starts_with("Cyclic task dependency") { "cycle" }
  else if msg.starts_with("Hidden dependency") { "hidden-dependency" }
  else if msg.starts_with("Overlapping write") { "overlapping-write" }
  else if msg.contains(crate::cell::INJECTED_PANIC_MARKER) { "injected-panic" }
  else if msg.contains(crate::prog::USER_PANIC_MARKER) { "user-panic" }
  else if msg.contains(crate::cell::STEP_BOUND_MARKER) { "step-bound" }
  else if msg.starts_with("BUG") || msg.contains("/repo/") { "internal" }
  else { "other" }
}

pub fn ref_outputs(p: &Program, state: &[Option<u32>], roots: &[u32]) -> (Vec<Option<u32>>, Option<crate::refm::RefViol>) {
  let mut r = RefRun::new(p, state);
  let outs = roots.iter().map(|t| r.eval(*t)).collect();
  (outs, r.viol)
}

pub fn shadow_is_all_completed(sh: &Shadow) -> bool { sh.known.iter().all(|t| sh.tasks[*t as usize].status == Status::Completed) }
