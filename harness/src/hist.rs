//! Runs one case (program + initial state + history) against a real Pie with every monitor switched on.

use std::collections::BTreeSet;
use std::rc::Rc;

use crate::driver::{Driver, SessKind, SessionRec};
use crate::gen::{Case, Step};
use crate::log::{self, Ev, Verdict, TM};
use crate::monitors::{self, BuStats, Finding};
use crate::prog::Program;
use crate::refm::RefRun;
use crate::report::{Alarm, Report};
use crate::shadow::{Shadow, Status};
use crate::trk::{log_trk, LogTrk};
use crate::util::{Fnv, Rng, J};

#[derive(Clone, Debug)]
pub struct RunOpts {
  pub which: &'static str,
  pub class: &'static str,
  /// The program is in the well-formed class: Ref equality is demanded and no abort may ever happen.
  pub wellformed: bool,
  /// The program carries value-conditional injected operations (hidden read/write, overlap, cycle; role flips).
  pub injected: bool,
  /// Histories are "pure" (every change batch is reported to a bottom-up build before any partial top-down).
  pub pure_history: bool,
  pub idempotence_probe: bool,
  pub c03_probe: bool,
  /// Crash-point runs: after the injected panic, require the same roots again through the same, still open pie session.
  pub retry_same_session: bool,
  pub fresh_pie: bool,
  pub seed: u64,
  pub case_no: u64,
}

pub struct Outcome { pub aborted: bool }

fn session_flags(rec: &SessionRec) -> (usize, usize, usize, usize, usize) {
  // (executions, re-executions of completed tasks, reuses = validated & not executed, consistent verdicts, inconsistent verdicts)
  let mut execs = 0; let mut reexec = 0; let mut cons = 0; let mut incons = 0;
  let mut validated: BTreeSet<u32> = BTreeSet::new();
  let mut executed: BTreeSet<u32> = BTreeSet::new();
  for e in &rec.events {
    match e {
      Ev::ExecStart { task } => { execs += 1; executed.insert(*task); if rec.shadow_before.tasks[*task as usize].status == Status::Completed { reexec += 1; } }
      Ev::Check { owner, verdict, .. } => { validated.insert(*owner); if *verdict == Verdict::Consistent { cons += 1 } else { incons += 1 } }
      Ev::OCheck { owner, consistent, .. } => { validated.insert(*owner); if *consistent { cons += 1 } else { incons += 1 } }
      _ => {}
    }
  }
  let reuse = validated.difference(&executed).count();
  (execs, reexec, reuse, cons, incons)
}

pub struct CaseRunner<'a> {
  pub case: &'a Case,
  pub opts: &'a RunOpts,
  pub rep: &'a mut Report,
  pub drv: Driver<LogTrk>,
  pub prog: Rc<Program>,
  pub step_no: usize,
  pub seen_tm: BTreeSet<TM>,
  pub any_abort: bool,
  /// Tasks executed by a partial top-down session while changes were pending, since the last all-consistent point.
  pub tainted: BTreeSet<u32>,
  /// Resources whose latest write was made by such a task (in a partial top-down session or while being repaired).
  pub tainted_res: BTreeSet<u32>,
  /// Resources changed externally and not rewritten by a task since.
  pub ext_dirty: BTreeSet<u32>,
  /// Emit K1 hits as alarms (curated reproducer) instead of only counting them.
  pub known_as_alarm: bool,
  /// Injected classes only: tasks whose latest execution read a resource and then saw another task write it while the
  /// reader was still executing or in the same build (a read that precedes the write of its generator, DESIGN
  /// section 12). What such a task computed is not a function of any single resource state, so neither its cached
  /// output nor anything built on it can be compared with a from-scratch run until it has executed again.
  pub order_tainted: BTreeSet<u32>,
  rng: Rng,
}

impl<'a> CaseRunner<'a> {
  pub fn new(case: &'a Case, opts: &'a RunOpts, rep: &'a mut Report) -> Self {
    let prog = Rc::new(case.prog.clone());
    log::clear();
    crate::cell::faults_reset();
    if opts.injected { crate::cell::FAULTS.with(|f| f.borrow_mut().step_bound = Some(60 * prog.n_tasks() as u64 + 400)); }
    let drv = Driver::new(prog.clone(), &case.init, log_trk());
    CaseRunner { case, opts, rep, drv, prog, step_no: 0, seen_tm: BTreeSet::new(), any_abort: false, tainted: BTreeSet::new(), tainted_res: BTreeSet::new(), ext_dirty: BTreeSet::new(), known_as_alarm: false, order_tainted: BTreeSet::new(), rng: Rng::derive(opts.seed ^ 0x5151, opts.case_no) }
  }

  fn raise(&mut self, fd: &Finding, rec: &SessionRec, what: &str) {
    if (fd.sig.starts_with("K2-") || fd.sig.starts_with("K4-") || fd.sig.starts_with("K5-")) && !self.known_as_alarm {
      if fd.prop == self.opts.which { self.rep.known_hit(&fd.sig); }
      return;
    }
    // C19: once a build on this instance has aborted, what the other properties' monitors find afterwards - a result
    // that differs from the from-scratch one, an abort without an existing violation, a store that differs from the
    // declared dependencies - is what C19 forbids (stale-edge aborts, finding K3, stay with C20).
    let relabelled;
    let fd = if self.opts.which == "C19" && self.any_abort && matches!(fd.prop, "C01" | "C08" | "C20") && !fd.sig.starts_with("K") {
      relabelled = Finding { prop: "C19", sig: format!("after-abort:{}", fd.sig), msg: fd.msg.clone(), at: fd.at };
      &relabelled
    } else { fd };
    if fd.prop != self.opts.which {
      self.rep.count(&format!("findings_attributed_to_{}", fd.prop));
      if std::env::var_os("PV_SHOW_OTHER").is_some() { eprintln!("OTHER {} {} [{} case {} step {} {}] {}", fd.prop, fd.sig, self.opts.class, self.opts.case_no, self.step_no, what, fd.msg); }
      return;
    }
    let window = log::render_window(&rec.events, fd.at, 14);
    self.rep.alarm(Alarm {
      property: fd.prop,
      signature: fd.sig.clone(),
      summary: format!("[{} case {} step {} {}] {}", self.opts.class, self.opts.case_no, self.step_no, what, fd.msg),
      case: J::obj().with("sub", J::s(self.opts.class)).with("mode", J::s("random")).with("case", J::from(self.opts.case_no)).with("seed", J::from(self.opts.seed)),
      detail: self.case.to_json()
        .with("failed_at_step", J::from(self.step_no))
        .with("session", J::s(what))
        .with("message", J::s(fd.msg.clone()))
        .with("state_before_session", J::s(format!("{:?}", rec.pre_world)))
        .with("state_after_session", J::s(format!("{:?}", rec.post_world)))
        .with("event_window", J::A(window.into_iter().map(J::S).collect())),
    });
  }

  /// All monitors that apply to any session.
  fn analyze(&mut self, rec: &SessionRec, what: &str, compare_ref: bool) -> Vec<Finding> {
    let mut fs = Vec::new();
    if std::env::var_os("PV_TRACE").is_some() {
      eprintln!("==== step {} {} (session {}) pre={:?} post={:?} aborted={:?}", self.step_no, what, rec.no, rec.pre_world, rec.post_world, rec.aborted);
      for (i, e) in rec.events.iter().enumerate() { if !matches!(e, Ev::Trk(_)) || std::env::var_os("PV_TRACE_TRK").is_some() { eprintln!("{:>5}: {:?}", i, e); } }
    }
    fs.extend(monitors::pass_live(rec));
    fs.extend(monitors::check_dump(rec, &self.drv.shadow));
    if let Some(pb) = rec.dump.problems.iter().find(|p| p.contains("panicked")) {
      if self.any_abort || rec.aborted.is_some() {
        fs.push(Finding { prop: "C19", sig: "store-corrupted-after-abort".into(), at: rec.events.len().saturating_sub(1), msg: format!("after an aborted build the dependency store is internally inconsistent: {}", pb) });
      }
    }
    fs.extend(monitors::pass_tracker(rec, &mut self.seen_tm));
    fs.extend(monitors::pass_errors(rec));
    match rec.kind {
      SessKind::TopDown => fs.extend(monitors::pass_topdown_validation(rec, 0, &rec.shadow_before)),
      SessKind::BottomUp => {
        let mut st = BuStats { max_queue: 0, executed: 0, scheduled: 0, nested_now: 0, cutoffs: 0 };
        fs.extend(monitors::pass_bottom_up(rec, &mut st));
        self.rep.max("max_bottom_up_queue", st.max_queue as u64);
        self.rep.add("bottom_up_executions", st.executed as u64);
        self.rep.add("bottom_up_tasks_scheduled", st.scheduled as u64);
        self.rep.add("bottom_up_nested_require_scheduled_now", st.nested_now as u64);
        self.rep.add("bottom_up_early_cutoffs", st.cutoffs as u64);
        if let Some(end) = rec.events.iter().position(|e| matches!(e, Ev::BuUpdateRet)) {
          let mut sh = rec.shadow_before.clone();
          for e in &rec.events[..=end] { sh.apply(e); }
          fs.extend(monitors::pass_topdown_validation(rec, end, &sh));
        }
      }
    }
    if rec.aborted.is_some() {
      // An aborted build may have modified resources (tasks that completed their writes before the abort, and the
      // create_writer/written_to route, which writes before it validates). Their dependents were not brought up to date,
      // so - like a file watcher would - the harness reports these resources to the next bottom-up build.
      for e in &rec.events { if let Ev::WriterSet { res, .. } = e { self.drv.pending.insert(*res); } }
    }
    if let Some(msg) = &rec.aborted {
      let aborted_before = self.any_abort;
      self.any_abort = true;
      self.rep.count("aborts");
      let kind = abort_kind(msg);
      self.rep.seen("abort_kinds", kind);
      self.rep.count(&format!("aborts_{}", kind));
      let at = rec.events.len().saturating_sub(2);
      if kind == "internal" || kind == "other" {
        fs.push(Finding { prop: "C19", sig: format!("internal-error:{}", internal_sig(msg)), msg: format!("a build failed with an internal error instead of a result or a diagnosis: {}", msg), at });
      }
      if kind == "step-bound" {
        fs.push(Finding { prop: "C07", sig: "unbounded-recursion".into(), msg: "the build exceeded the step bound (unbounded recursion through requires)".into(), at });
      }
      if kind == "overlapping-write" {
        // "re-execution of the same writer, however it is reached, is never reported as an overlap": in any class
        let (_, named) = parse_abort(msg);
        if named.len() >= 2 && named[0] == named[1] {
          fs.push(Finding { prop: "C06", sig: "writer-overlaps-with-itself".into(), msg: format!("a task's write was reported as overlapping with its own earlier write: {}", msg), at });
        }
      }
      if self.opts.wellformed && kind == "overlapping-write" {
        fs.push(Finding { prop: "C06", sig: "false-overlap-in-well-formed-program".into(), msg: format!("a program in which every resource has exactly one writing task aborted with an overlapping-write error (re-execution of the same writer must never be reported as an overlap): {}", msg), at });
      }
      if self.opts.wellformed && kind == "hidden-dependency" && aborted_before && self.path_through_aborted_task(rec, msg) {
        // finding K5 (C19): the execution of a task on the only require path between a reader and the generator was
        // aborted by an earlier build; its dependencies are gone, and the generator's next write (or the reader's next
        // read) is diagnosed as a hidden dependency although the tasks contain none
        let text = format!("after an aborted build a later build aborts for a violation that does not exist: the only require path between the reader and the writer named here runs through a task whose execution was aborted (its dependencies were dropped when it started) and that has not run since: {}", msg);
        fs.push(Finding { prop: "C19", sig: "K5-legality-path-through-aborted-task".into(), at, msg: text.clone() });
        fs.push(Finding { prop: "C20", sig: "K5-legality-path-through-aborted-task".into(), at, msg: text });
      } else if self.opts.wellformed && kind != "injected-panic" && kind != "user-panic" {
        fs.push(Finding { prop: "C20", sig: format!("abort-in-well-formed-program:{}", kind), msg: format!("a program that contains no violation in any state aborted: {}", msg), at });
      }
      if self.opts.injected && matches!(kind, "cycle" | "hidden-dependency" | "overlapping-write") {
        if let Some(fd) = self.classify_abort(rec, msg, kind) { fs.push(fd); }
      }
    }
    let order_tainted_reused = if self.opts.injected { self.update_order_taint(rec) } else { false };
    if order_tainted_reused { self.rep.count("sessions_reusing_a_task_that_read_before_its_generator_wrote"); }
    if self.opts.injected && rec.kind == SessKind::TopDown && !order_tainted_reused {
      // Second oracle for C05-C07: if the from-scratch interpreter hits a violation while evaluating root k, pie must
      // not return a value for root k. And when neither aborts, the values must agree.
      let p = self.prog.clone();
      let mut r = RefRun::new(&p, &rec.pre_world);
      let mut outs = Vec::new();
      for root in &rec.requested_roots { outs.push(r.eval(*root)); }
      match &r.viol {
        Some(crate::refm::RefViol::SelfAccess { .. }) | Some(crate::refm::RefViol::StepBound) => { self.rep.count("sessions_outside_program_class"); }
        Some(v) => {
          let k = outs.iter().position(|o| o.is_none()).unwrap_or(0);
          self.rep.count("ref_violations_in_required_roots");
          // A reader that goes on to require the writer later in the same execution is legal or not depending on
          // which of the two ran first (DESIGN section 12): not a member of the injected class, the oracle stays out.
          let order_dependent = match v {
            crate::refm::RefViol::HiddenRead { reader, writer, .. } | crate::refm::RefViol::HiddenWrite { reader, writer, .. } => {
              let mut l = RefRun::new(&p, &rec.pre_world);
              l.lenient = true;
              for root in rec.requested_roots.iter().take(k + 1) { l.eval(*root); }
              l.reaches(*reader, *writer)
            }
            _ => false,
          };
          if order_dependent || r.order_sensitive {
            // also: some task read a resource before another task wrote it in this from-scratch build - then pie, which
            // validated the reader's dependency before the writer re-ran, legitimately differs from a from-scratch run
            self.rep.count("sessions_with_read_before_require_of_generator");
          } else if rec.roots.len() > k && match v {
            crate::refm::RefViol::HiddenRead { res, reader, writer } | crate::refm::RefViol::HiddenWrite { res, reader, writer } =>
              monitors::unrelated_reader_writer_pairs(rec, &self.drv.shadow).iter().any(|(x, r, w, legal_then)| *legal_then && (*x, *r, *w) == (*reader, *res, *writer)),
            _ => false,
          } {
            // same finding, seen through the second oracle: the store ends up with this reader/writer pair and no path
            self.rep.known_hit("K4-legality-path-removed-later(ref-oracle)");
          } else if rec.roots.len() > k {
            let prop = match v { crate::refm::RefViol::Cycle { .. } => "C07", crate::refm::RefViol::Overlap { .. } => "C06", crate::refm::RefViol::UserPanic { .. } => "C19", _ => "C05" };
            fs.push(Finding { prop, sig: "violation-not-diagnosed".into(), at: rec.events.len().saturating_sub(2),
              msg: format!("executing the required tasks from scratch in this state runs into {:?}, but Session::require(T{}) returned {}", v, rec.roots[k].0, rec.roots[k].1) });
          } else if let Some(msg) = &rec.aborted {
            if abort_kind(msg) == match v { crate::refm::RefViol::Cycle { .. } => "cycle", crate::refm::RefViol::Overlap { .. } => "overlapping-write", crate::refm::RefViol::UserPanic { .. } => "user-panic", _ => "hidden-dependency" } { self.rep.count("violations_diagnosed_as_ref_says"); }
          }
        }
        None => {
          if r.order_sensitive {
            self.rep.count("sessions_with_read_before_write_in_one_build");
          } else if rec.aborted.is_none() {
            let prop = if self.any_abort { "C19" } else { "C01" };
            for mut fd in monitors::check_vs_ref(&p, rec, &r, &outs) { fd.prop = prop; fd.sig = format!("{}-after-role-flip", fd.sig); fs.push(fd); }
            self.rep.add("outputs_compared_with_ref", rec.roots.len() as u64);
          }
        }
      }
    }
    if compare_ref && self.opts.wellformed {
      let p = self.prog.clone();
      let (r, outs, roots_only) = monitors::ref_for_session(&p, rec);
      if let Some(v) = &r.viol {
        self.rep.inconclusive.push(format!("generator bug: Ref found {:?} in a well-formed program (case {})", v, self.opts.case_no));
      } else {
        fs.extend(monitors::check_vs_ref(&p, rec, &r, &outs));
        self.rep.add("outputs_compared_with_ref", rec.roots.len() as u64);
        if rec.kind == SessKind::TopDown && p.exact_only() && rec.aborted.is_none() {
          for e in rec.events.iter().enumerate() {
            if let (i, Ev::ExecStart { task }) = e {
              if !roots_only.contains(task) {
                fs.push(Finding { prop: "C02", sig: "executed-but-not-in-from-scratch-build".into(), at: i, msg: format!("T{} was executed, but a from-scratch build of the required roots {:?} in the same state does not execute it (exact checkers only)", task, rec.requested_roots) });
              }
            }
          }
          self.rep.count("subset_clause_sessions");
        }
        if self.opts.fresh_pie && rec.aborted.is_none() {
          // cross-check Ref itself against a fresh Pie on the same state (validates the oracle)
          let saved_faults = crate::cell::FAULTS.with(|f| std::mem::take(&mut *f.borrow_mut()));
          let mut fresh: Driver<()> = Driver::new(self.prog.clone(), &rec.pre_world, ());
          let frec = fresh.session(None, &rec.requested_roots);
          for (k, (root, got)) in frec.roots.iter().enumerate() {
            if outs.get(k).copied().flatten() != Some(*got) {
              fs.push(Finding { prop: "C01", sig: "fresh-pie-disagrees-with-ref".into(), at: 0, msg: format!("a fresh Pie returns {} for T{} but the from-scratch interpreter says {:?}: plain execution itself differs", got, root, outs.get(k)) });
            }
          }
          self.rep.count("fresh_pie_crosschecks");
          let _ = log::take();
          crate::cell::FAULTS.with(|f| *f.borrow_mut() = saved_faults);
        }
      }
    }
    for e in &rec.events {
      match e {
        Ev::ExtSet { res, .. } => { self.ext_dirty.insert(*res); }
        Ev::WriterSet { res, .. } => { self.ext_dirty.remove(res); }
        _ => {}
      }
    }
    let (execs, reexec, reuse, cons, incons) = session_flags(rec);
    self.rep.add("sessions", 1);
    self.rep.add("task_executions", execs as u64);
    self.rep.add("re_executions", reexec as u64);
    self.rep.add("reuses_after_validation", reuse as u64);
    self.rep.add("verdicts_consistent", cons as u64);
    self.rep.add("verdicts_inconsistent", incons as u64);
    self.rep.add("events", rec.events.len() as u64);
    self.rep.max("max_events_in_one_session", rec.events.len() as u64);
    let _ = what;
    fs
  }

  /// C03: after a bottom-up build that was told about every changed resource, no known (completed) task may need
  /// execution. Executions are run through the K1 classifier: the verdict that justified the execution must be on a
  /// producer that a partial top-down session re-executed while changes were pending (or that was itself re-executed
  /// for that reason); anything else is a violation.
  fn classify_stale(&mut self, rec: &SessionRec, from: usize, mut sh: Shadow, explained: &mut BTreeSet<u32>, out: &mut Vec<Finding>) {
    let mut stack: Vec<u32> = Vec::new();
    for (i, e) in rec.events.iter().enumerate().skip(from) {
      match e {
        Ev::ExecStart { task } => {
          if sh.tasks[*task as usize].status == Status::Completed {
            let just = (0..i).rev().map(|j| &rec.events[j]).find(|e| !matches!(e, Ev::Trk(_)));
            // a checker that fails (armed fault) makes its owner inconsistent by design (C18): not staleness
            if matches!(just, Some(Ev::Check { owner, verdict: Verdict::Err(_), .. }) if owner == task) {
              self.rep.count("executions_after_bottom_up_justified_by_a_failing_checker");
              stack.push(*task);
              sh.apply(e);
              continue;
            }
            let k1 = match just {
              Some(Ev::OCheck { owner, target, consistent: false, .. }) if owner == task => self.tainted.contains(target) || explained.contains(target),
              Some(Ev::Check { owner, res, verdict: Verdict::Inconsistent, .. }) if owner == task => !self.ext_dirty.contains(res) && self.tainted_res.contains(res),
              _ => false,
            };
            if k1 {
              explained.insert(*task);
              self.rep.known_hit("K1-partial-top-down-leaves-requirer-stale");
              if self.known_as_alarm {
                out.push(Finding { prop: "C03", sig: "K1-partial-top-down-leaves-requirer-stale".into(), at: i,
                  msg: format!("T{} was left out of date by the bottom-up build: its producer had been re-executed by an earlier partial top-down build, so its stamp looked consistent", task) });
              }
            } else {
              out.push(Finding { prop: "C03", sig: "stale-after-bottom-up".into(), at: i,
                msg: format!("after a bottom-up build that was told about every changed resource, requiring known task T{} executed it: it had been left out of date (justifying verdict: {:?}; tasks last executed by partial top-down builds: {:?}, resources last written by them: {:?})", task, just, self.tainted, self.tainted_res) });
            }
          }
          stack.push(*task);
        }
        Ev::ExecEnd { .. } => { stack.pop(); }
        Ev::WriterSet { res, .. } => {
          // a repaired (explained) task rewriting a resource passes the taint on; any other write clears it
          if stack.last().map_or(false, |t| explained.contains(t)) { self.tainted_res.insert(*res); } else { self.tainted_res.remove(res); }
        }
        _ => {}
      }
      sh.apply(e);
    }
  }

  /// K5 classifier: pie diagnosed a hidden dependency between reader X and writer W. True iff the declared dependencies
  /// hold no path X ~> W while X reaches (from scratch, or over its recorded dependencies) some task P that, at the
  /// moment of the abort, is still in the state an earlier aborted execution left it in, and P - run from scratch in
  /// the current state - reaches W.
  fn path_through_aborted_task(&mut self, rec: &SessionRec, msg: &str) -> bool {
    let (_res, tasks) = parse_abort(msg);
    if tasks.len() < 2 { return false; }
    let (x, w) = if abort_in_read(&rec.events) { (tasks[0], tasks[1]) } else { (tasks[1], tasks[0]) };
    let mut sh = rec.shadow_before.clone();
    for e in &rec.events { if matches!(e, Ev::Abort { .. }) { break; } sh.apply(e); }
    if sh.reaches(x, w) { return false; }
    let p = self.prog.clone();
    let mut r = RefRun::new(&p, &rec.pre_world);
    // (collecting and lenient: only the require structure of the from-scratch build is of interest here)
    r.collect = true;
    r.lenient = true;
    let known: Vec<u32> = self.drv.shadow.known.iter().copied().collect();
    for t in &known { r.eval(*t); }
    if r.viol.is_some() { return false; }
    // the reader reaches the aborted task either as it would now (from scratch) or over the dependencies it recorded
    // when it last ran (it may not have been re-validated yet in this build); from the aborted task onwards only the
    // from-scratch structure is known, its own recorded dependencies are what the abort destroyed
    (0..p.n_tasks() as u32).any(|t| t != x && sh.tasks[t as usize].status == Status::Partial && (r.reaches(x, t) || sh.reaches(x, t)) && (t == w || r.reaches(t, w)))
  }

  /// Whether some task is still in the state an aborted execution of an *earlier* session left it in.
  fn any_abort_before(&self, rec: &SessionRec) -> bool { rec.shadow_before.tasks.iter().any(|t| t.status == Status::Partial) }

  /// Maintains `order_tainted` from what pie actually did in this session; returns whether a task that was tainted
  /// before this session is still tainted (not re-executed) - then the session may have reused it.
  fn update_order_taint(&mut self, rec: &SessionRec) -> bool {
    let mut executed: BTreeSet<u32> = BTreeSet::new();
    // reads made by executions of this session: (task, res)
    let mut reads: Vec<(u32, u32)> = Vec::new();
    let mut stack: Vec<u32> = Vec::new();
    let mut newly: BTreeSet<u32> = BTreeSet::new();
    for e in &rec.events {
      match e {
        Ev::ExecStart { task } => { executed.insert(*task); newly.remove(task); reads.retain(|(t, _)| t != task); stack.push(*task); }
        Ev::ExecEnd { .. } => { stack.pop(); }
        Ev::Abort { .. } => { stack.clear(); }
        Ev::ReadRet { task, res, reader: Some(_), .. } => reads.push((*task, *res)),
        Ev::WriterSet { res, .. } => {
          let w = stack.last().copied();
          for (t, r) in &reads { if r == res && Some(*t) != w { newly.insert(*t); } }
        }
        _ => {}
      }
    }
    let carried = self.order_tainted.iter().any(|t| !executed.contains(t));
    self.order_tainted.retain(|t| !executed.contains(t));
    self.order_tainted.extend(newly);
    carried
  }

  /// C20: pie aborted with a diagnosis. If a from-scratch build of all known tasks in the current state runs into the
  /// same kind of violation, fine. Otherwise the abort must be explained by a stale edge (finding K3): the other task
  /// named in the message was not executed in this session and, evaluated from scratch in the current state, does
  /// not create the edge. Anything else is a violation.
  fn classify_abort(&mut self, rec: &SessionRec, msg: &str, kind: &'static str) -> Option<Finding> {
    if !self.order_tainted.is_empty() {
      // (update_order_taint has not run yet for this session: any member may be reused by it)
      let executed: BTreeSet<u32> = rec.events.iter().filter_map(|e| if let Ev::ExecStart { task } = e { Some(*task) } else { None }).collect();
      if self.order_tainted.iter().any(|t| !executed.contains(t)) { self.rep.count("aborts_in_sessions_reusing_a_task_that_read_before_its_generator_wrote"); return None; }
    }
    let p = self.prog.clone();
    let at = rec.events.len().saturating_sub(2);
    let known: Vec<u32> = self.drv.shadow.known.iter().copied().collect();
    let (res, tasks) = parse_abort(msg);
    let cur = tasks.first().copied();
    let other = tasks.get(1).copied();
    // from-scratch builds of all known tasks (two evaluation orders), first strict, then collecting every kind of
    // violation the tasks contain in this state (a strict build stops at the first one it meets)
    let mut orders: Vec<Vec<u32>> = vec![known.clone(), known.iter().rev().copied().collect()];
    // programs with a live violation are order-sensitive: also try the order pie was asked for, and the two tasks named
    // the order in which pie itself started executing tasks in this session (matters for bottom-up builds, where the
    // queue decides who runs first and a hidden write changes what later tasks see)
    let mut exec_order: Vec<u32> = Vec::new();
    for e in &rec.events { if let Ev::ExecStart { task } = e { if !exec_order.contains(task) { exec_order.push(*task); } } }
    let mut exec_order_completed: Vec<u32> = Vec::new();
    for e in &rec.events { if let Ev::ExecEnd { task, .. } = e { if !exec_order_completed.contains(task) { exec_order_completed.push(*task); } } }
    for first in [rec.requested_roots.clone(), exec_order, exec_order_completed, cur.into_iter().collect(), other.into_iter().collect(), other.into_iter().chain(cur.into_iter()).collect()] {
      if first.is_empty() { continue; }
      let mut o: Vec<u32> = Vec::new();
      for t in first.iter().chain(known.iter()) { if !o.contains(t) { o.push(*t); } }
      orders.push(o);
    }
    let mut ref_kinds: BTreeSet<&'static str> = BTreeSet::new();
    let kind_of = |v: &crate::refm::RefViol| -> &'static str {
      match v {
        crate::refm::RefViol::Cycle { .. } => "cycle",
        crate::refm::RefViol::Overlap { .. } => "overlapping-write",
        crate::refm::RefViol::HiddenRead { .. } | crate::refm::RefViol::HiddenWrite { .. } => "hidden-dependency",
        crate::refm::RefViol::SelfAccess { .. } | crate::refm::RefViol::StepBound => "outside-class",
        crate::refm::RefViol::UserPanic { .. } => "user-panic",
      }
    };
    let mut strict_orders = 0;
    let mut strict_aborted = 0;
    for order in &orders {
      for collect in [false, true] {
        let mut r = RefRun::new(&p, &rec.pre_world);
        r.collect = collect;
        for t in order { if r.viol.is_some() { break; } r.eval(*t); }
        if let Some(v) = &r.viol { ref_kinds.insert(kind_of(v)); }
        for v in &r.collected { ref_kinds.insert(kind_of(v)); }
        if !collect { strict_orders += 1; if r.viol.is_some() { strict_aborted += 1; } }
      }
    }
    let _ = (cur, other);
    if ref_kinds.contains("outside-class") { self.rep.count("sessions_outside_program_class"); return None; }
    if ref_kinds.contains(kind) { self.rep.count("aborts_confirmed_by_from_scratch_build"); return None; }
    // The property's quantifier: "an abort only if a from-scratch build of all known tasks, in the current state, aborts
    // as well". When the from-scratch build aborts in EVERY evaluation order tried (the current state does contain a
    // violation, though the first one met is of another kind), pie's abort is not spurious in that sense.
    if strict_orders > 0 && strict_aborted == strict_orders && ref_kinds.iter().any(|k| matches!(*k, "cycle" | "hidden-dependency" | "overlapping-write" | "user-panic")) {
      self.rep.count("aborts_in_states_where_every_from_scratch_build_aborts_with_another_diagnosis");
      return None;
    }
    // stale-edge classifier
    let executed_now: BTreeSet<u32> = rec.events.iter().filter_map(|e| if let Ev::ExecStart { task } = e { Some(*task) } else { None }).collect();
    let solo = |t: u32| { let mut r = RefRun::new(&p, &rec.pre_world); r.eval(t); r };
    let pattern: Option<&'static str> = match (kind, cur, other, res) {
      // finding K5: reader and writer are connected (from scratch) only through a task whose execution an earlier build
      // aborted and that has not run since
      ("hidden-dependency", Some(_), Some(_), Some(_)) if self.any_abort_before(rec) && self.path_through_aborted_task(rec, msg) => Some("K5-legality-path-through-aborted-task"),
      ("hidden-dependency", Some(c), Some(o), Some(r)) if abort_in_read(&rec.events) => {
        let rr = solo(o);
        if !executed_now.contains(&o) && rr.writer_of[r as usize] != Some(o) { Some("K3-stale-write-edge-hidden-read") } else { let _ = c; None }
      }
      ("hidden-dependency", Some(c), Some(o), Some(r)) => {
        let rr = solo(o);
        if !executed_now.contains(&o) && (!rr.readers_of[r as usize].contains(&o) || rr.reaches(o, c)) { Some("K3-stale-read-edge-hidden-write") } else { None }
      }
      ("overlapping-write", Some(_c), Some(o), Some(r)) => {
        let rr = solo(o);
        if !executed_now.contains(&o) && rr.writer_of[r as usize] != Some(o) { Some("K3-stale-write-edge-overlap") } else { None }
      }
      ("cycle", Some(c), Some(b), _) => {
        // some task on a recorded path b ->* c was not executed in this session (its require edges may be stale)
        let sh = &self.drv.shadow; // shadow after the aborted session = store content at the abort (minus the unwound tasks)
        let mut stale_on_path = false;
        let mut seen = BTreeSet::new();
        let mut stack = vec![(b, !executed_now.contains(&b))];
        while let Some((x, stale)) = stack.pop() {
          if x == c { if stale { stale_on_path = true; break; } continue; }
          if !seen.insert((x, stale)) { continue; }
          for d in &sh.tasks[x as usize].decls {
            if d.is_task_target() { stack.push((d.target, stale || !executed_now.contains(&d.target) && d.target != c)); }
          }
        }
        if stale_on_path { Some("K3-stale-require-edge-cycle") } else { None }
      }
      _ => None,
    };
    // A bottom-up build trusts the cached output of every task that was not scheduled. In mixed histories such a task
    // can be stale (finding K1); a task that consumes the stale output then behaves as it would not in the current state
    // and may run into a violation a from-scratch build does not contain. This is a consequence of K1, accepted only
    // with a concrete witness: a require in this session returned, without executing its target, a value that differs
    // from the target's from-scratch output in the current state, while K1 taint exists.
    if pattern.is_none() && rec.kind == SessKind::BottomUp && (!self.tainted.is_empty() || !self.tainted_res.is_empty()) {
      let witness = rec.events.iter().any(|e| match e {
        Ev::ReqRet { target, out, .. } if !executed_now.contains(target) => { let r = solo(*target); r.viol.is_none() && r.memo[*target as usize] != Some(*out) }
        _ => false,
      });
      if witness {
        self.rep.known_hit("K1-stale-output-consumed-by-bottom-up-build");
        return None;
      }
    }
    match pattern {
      Some(sig) => {
        self.rep.known_hit(sig);
        if self.known_as_alarm { Some(Finding { prop: "C20", sig: sig.into(), at, msg: format!("spurious abort caused by a dependency recorded in an earlier state: {}", msg) }) } else { None }
      }
      None => Some(Finding { prop: "C20", sig: format!("spurious-abort:{}", kind), at,
        msg: format!("the build aborted ({}) but a from-scratch build of all known tasks {:?} in the current state hits no such violation (it finds: {:?}), and no stale edge of a task not executed in this session explains it", msg, known, ref_kinds) }),
    }
  }

  fn nontrivial(&mut self, rec: &SessionRec, extra: u64) {
    let (_execs, reexec, reuse, cons, incons) = session_flags(rec);
    let nt = match self.opts.which {
      "C01" | "C02" | "C20" => reexec > 0 && reuse > 0,
      "C03" | "C04" => rec.kind == SessKind::BottomUp && reexec > 0,
      "C08" => reexec > 0,
      "C09" => cons > 0 && incons > 0,
      "C17" => rec.events.iter().filter(|e| matches!(e, Ev::Trk(_))).count() >= 12,
      "C18" => rec.events.iter().any(|e| matches!(e, Ev::Check { verdict: Verdict::Err(_), .. })),
      "C05" => rec.aborted.as_deref().map_or(false, |m| abort_kind(m) == "hidden-dependency"),
      "C06" => rec.aborted.as_deref().map_or(false, |m| abort_kind(m) == "overlapping-write"),
      "C07" => rec.aborted.as_deref().map_or(false, |m| abort_kind(m) == "cycle"),
      _ => reexec > 0,
    };
    if nt {
      // one entry per distinct case (program + initial state + history), however many of its sessions qualify
      let _ = extra;
      let mut h = Fnv::default();
      h.u64(self.case.digest());
      self.rep.nontrivial(h.0);
      self.rep.count("nontrivial_sessions");
    }
  }

  pub fn run(&mut self) -> Outcome {
    self.rep.evaluations += 1;
    let steps = self.case.steps.clone();
    for (i, step) in steps.iter().enumerate() {
      self.step_no = i;
      match step {
        Step::Set(r, v) => self.drv.set(*r, *v),
        Step::Arm(o, r, on) => self.drv.arm(*o, *r, *on),
        Step::PanicAt(k) => { crate::cell::FAULTS.with(|f| f.borrow_mut().panic_at = Some(*k)); }
        Step::PanicAtAny(k) => { crate::cell::FAULTS.with(|f| { let mut f = f.borrow_mut(); f.panic_at = Some(*k); f.crash_in_user_code = true; }); }
        Step::TopDown(roots) => {
          let retry = self.opts.retry_same_session && crate::cell::FAULTS.with(|f| f.borrow().panic_at.is_some());
          let (rec, retry_rec) = if retry { self.drv.session_with_retry(None, roots) } else { (self.drv.session(None, roots), None) };
          let fs = self.analyze(&rec, "top-down session", true);
          for fd in &fs { self.raise(fd, &rec, "top-down session"); }
          self.nontrivial(&rec, 0);
          crate::cell::FAULTS.with(|f| { let mut f = f.borrow_mut(); f.panic_at = None; f.crash_in_user_code = false; });
          if let Some(m) = &rec.aborted { if self.opts.wellformed && abort_kind(m) != "injected-panic" { return Outcome { aborted: true }; } if retry_rec.is_none() { continue; } }
          // the panic was caught inside the pie session and the roots were required again through the same Session
          // object: from here on that second part is "the session"
          let rec = match retry_rec {
            Some(r2) => {
              let fs = self.analyze(&r2, "same-session retry after the abort", true);
              for fd in &fs { self.raise(fd, &r2, "same-session retry after the abort"); }
              self.nontrivial(&r2, 0);
              self.rep.count("same_session_retries_after_abort");
              if r2.aborted.is_none() { self.rep.count("same_session_retries_that_returned"); }
              if let Some(m) = &r2.aborted { if self.opts.wellformed && abort_kind(m) != "injected-panic" { return Outcome { aborted: true }; } continue; }
              r2
            }
            None => rec,
          };
          let known: BTreeSet<u32> = self.drv.shadow.known.clone();
          if known.iter().all(|k| roots.contains(k)) {
            self.drv.pending.clear();
            self.tainted.clear();
            self.tainted_res.clear();
          } else if !self.drv.pending.is_empty() {
            // a partial top-down session while changes are pending: what it executed may leave requirers stale (K1)
            for e in &rec.events {
              match e {
                Ev::ExecStart { task } => { self.tainted.insert(*task); }
                Ev::WriterSet { res, .. } => { self.tainted_res.insert(*res); }
                _ => {}
              }
            }
            self.rep.count("partial_top_down_sessions_with_pending_changes");
          }
          // (a checker that is armed to fail makes its owner inconsistent by design: 'nothing changed' does not hold then)
          let any_armed = crate::cell::FAULTS.with(|f| !f.borrow().armed_checks.is_empty());
          if self.opts.idempotence_probe && !any_armed {
            let rec2 = self.drv.session(None, roots);
            let mut fs2 = self.analyze(&rec2, "repeated identical session", true);
            for (i, e) in rec2.events.iter().enumerate() {
              match e {
                Ev::ExecStart { task } => fs2.push(Finding { prop: "C02", sig: "repeat-session-executes".into(), at: i, msg: format!("requiring {:?} again with nothing changed executed T{}", roots, task) }),
                Ev::Check { verdict, owner, res, .. } if *verdict == Verdict::Inconsistent => fs2.push(Finding { prop: "C02", sig: "repeat-session-inconsistent".into(), at: i, msg: format!("requiring {:?} again with nothing changed found T{}'s dependency on R{} inconsistent", roots, owner, res) }),
                Ev::OCheck { consistent: false, owner, target, .. } => fs2.push(Finding { prop: "C02", sig: "repeat-session-inconsistent".into(), at: i, msg: format!("requiring {:?} again with nothing changed found T{}'s dependency on T{} inconsistent", roots, owner, target) }),
                _ => {}
              }
            }
            if rec2.roots != rec.roots && rec2.aborted.is_none() {
              fs2.push(Finding { prop: "C02", sig: "repeat-session-different-output".into(), at: 0, msg: format!("requiring {:?} again with nothing changed returned {:?} instead of {:?}", roots, rec2.roots, rec.roots) });
            }
            for fd in &fs2 { self.raise(fd, &rec2, "repeated identical session"); }
            self.rep.count("idempotence_probes");
            if rec2.aborted.is_some() && self.opts.wellformed { return Outcome { aborted: true }; }
          }
        }
        Step::BottomUp(roots) => {
          let mut changed: Vec<u32> = self.drv.pending.iter().copied().collect();
          self.rng.shuffle(&mut changed);
          // One build in four is also told about resources that did not change, and about some resource twice (a file
          // watcher that over-reports): nothing may be executed on that account. Separate stream, so that the
          // histories themselves stay what they were.
          {
            let mut extra = Rng::derive(self.opts.seed ^ 0x0E87_7A, self.opts.case_no.wrapping_mul(131).wrapping_add(i as u64));
            if extra.chance(1, 4) {
              let n_res = self.prog.n_res;
              for _ in 0..extra.range(1, 3) { let r = extra.below(n_res) as u32; let at = extra.below(changed.len() + 1); changed.insert(at, r); }
              self.rep.count("bottom_up_builds_told_about_unchanged_or_repeated_resources");
            }
          }
          // One build in five is preceded, in the same session, by a bottom-up build that is told about some resources
          // while every checker fails - so all their dependents are scheduled in it - and is then dropped without
          // updating: nothing of it may leak into the build that follows.
          {
            let mut ab = Rng::derive(self.opts.seed ^ 0xABA_D0, self.opts.case_no.wrapping_mul(257).wrapping_add(i as u64));
            let none_armed = crate::cell::FAULTS.with(|f| f.borrow().armed_checks.is_empty());
            if none_armed && ab.chance(1, 5) {
              let n_res = self.prog.n_res;
              self.drv.abandon_plan = Some((0..ab.range(1, 3)).map(|_| ab.below(n_res) as u32).collect());
              self.rep.count("bottom_up_builds_preceded_by_an_abandoned_build");
            }
          }
          let rec = self.drv.session(Some(changed), roots);
          // With tainted producers around (mixed histories, finding K1) the build may legitimately trust stale tasks;
          // then only the probe below decides, through the K1 classifier.
          let clean = self.tainted.is_empty() && self.tainted_res.is_empty();
          let fs = self.analyze(&rec, "bottom-up session", clean);
          // whatever the bottom-up build itself executed or wrote is no longer "last touched by a partial top-down build"
          if let Some(endi) = rec.events.iter().position(|e| matches!(e, Ev::BuUpdateRet)) {
            for e in &rec.events[..endi] {
              match e {
                Ev::ExecStart { task } => { self.tainted.remove(task); }
                Ev::WriterSet { res, .. } => { self.tainted_res.remove(res); }
                _ => {}
              }
            }
          }
          for fd in &fs { self.raise(fd, &rec, "bottom-up session"); }
          self.nontrivial(&rec, 0);
          crate::cell::FAULTS.with(|f| { let mut f = f.borrow_mut(); f.panic_at = None; f.crash_in_user_code = false; });
          if let Some(m) = &rec.aborted { if self.opts.wellformed && abort_kind(m) != "injected-panic" { return Outcome { aborted: true }; } continue; }
          self.drv.pending.clear();
          if self.opts.c03_probe {
            let mut all: Vec<u32> = self.drv.shadow.known.iter().copied().collect();
            self.rng.shuffle(&mut all);
            // the probe runs with every armed checker fault switched off: a task whose failing check was ignored by the
            // bottom-up build must show up as out of date, not as "re-executed because its checker fails again"
            let armed_saved = crate::cell::FAULTS.with(|f| std::mem::take(&mut f.borrow_mut().armed_checks));
            let probe = self.drv.session(None, &all);
            crate::cell::FAULTS.with(|f| f.borrow_mut().armed_checks = armed_saved);
            let mut fsp = self.analyze(&probe, "post-bottom-up probe (require every known task)", true);
            let mut explained: BTreeSet<u32> = BTreeSet::new();
            // the top-down requires issued in the bottom-up session after the update are "afterwards" too
            if let Some(endi) = rec.events.iter().position(|e| matches!(e, Ev::BuUpdateRet)) {
              let mut sh0 = rec.shadow_before.clone();
              for e in &rec.events[..=endi] { sh0.apply(e); }
              let mut fst = Vec::new();
              self.classify_stale(&rec, endi + 1, sh0, &mut explained, &mut fst);
              for fd in &fst { self.raise(fd, &rec, "requires after the bottom-up build (same session)"); }
            }
            self.classify_stale(&probe, 0, probe.shadow_before.clone(), &mut explained, &mut fsp);
            if !clean && explained.is_empty() {
              // the bottom-up session was not compared with Ref because of tainted producers; nothing turned out stale,
              // so its outputs must have been right after all
              let p = self.prog.clone();
              let (r, outs, _) = monitors::ref_for_session(&p, &rec);
              if r.viol.is_none() { for mut fd in monitors::check_vs_ref(&p, &rec, &r, &outs) { fd.prop = "C03"; fd.sig = format!("bottom-up-{}", fd.sig); fsp.push(fd); } }
            }
            if let Some(m) = &probe.aborted {
              fsp.push(Finding { prop: "C03", sig: "abort-after-bottom-up".into(), at: probe.events.len().saturating_sub(2), msg: format!("requiring every known task after a bottom-up build aborted: {}", m) });
            }
            // outputs vs Ref are compared by `analyze` (C01 findings); re-attribute them to C03 for this probe
            for fd in fsp.iter_mut() { if fd.prop == "C01" { fd.prop = "C03"; fd.sig = format!("probe-{}", fd.sig); } }
            for fd in &fsp { self.raise(fd, &probe, "post-bottom-up probe"); }
            self.rep.count("c03_probes");
            self.tainted.clear();
            self.tainted_res.clear();
            self.nontrivial(&probe, 1);
            if probe.aborted.is_some() && self.opts.wellformed { return Outcome { aborted: true }; }
          }
        }
      }
    }
    Outcome { aborted: self.any_abort }
  }
}

/// Kind of an abort, from the panic message (the only place where the public API exposes the diagnosis). Recognised
/// by keyword, not by exact wording, so that re-worded messages do not turn into alarms.
pub fn abort_kind(msg: &str) -> &'static str {
  if msg.contains(crate::cell::INJECTED_PANIC_MARKER) { return "injected-panic"; }
  if msg.contains(crate::prog::USER_PANIC_MARKER) { return "user-panic"; }
  if msg.contains(crate::cell::STEP_BOUND_MARKER) { return "step-bound"; }
  if msg.starts_with("BUG") { return "internal"; }
  // the diagnosis is named before the first quoted key
  let head: String = msg.split('\'').next().unwrap_or(msg).to_ascii_lowercase();
  if head.contains("cyclic") || head.contains("cycle") { "cycle" }
  else if head.contains("hidden dependency") || head.contains("hidden-dependency") || head.contains("hidden") { "hidden-dependency" }
  else if head.contains("overlapping write") || head.contains("overlapping") || head.contains("overlap") { "overlapping-write" }
  else if msg.contains("/repo/") { "internal" }
  else { "other" }
}

/// Whether the access that was being made when the session aborted was a read (the innermost pending call).
pub fn abort_in_read(evs: &[Ev]) -> bool {
  matches!(evs.iter().rev().find(|e| matches!(e, Ev::WriteCall { .. } | Ev::ReadCall { .. } | Ev::ReqCall { .. })), Some(Ev::ReadCall { .. }))
}

pub fn ref_outputs(p: &Program, state: &[Option<u32>], roots: &[u32]) -> (Vec<Option<u32>>, Option<crate::refm::RefViol>) {
  let mut r = RefRun::new(p, state);
  let outs = roots.iter().map(|t| r.eval(*t)).collect();
  (outs, r.viol)
}

pub fn shadow_is_all_completed(sh: &Shadow) -> bool { sh.known.iter().all(|t| sh.tasks[*t as usize].status == Status::Completed) }

/// Extracts (resource, [current task, other task]) from one of pie's diagnosis messages.
pub fn parse_abort(msg: &str) -> (Option<u32>, Vec<u32>) {
  let mut res = None;
  let mut tasks = Vec::new();
  let b = msg.as_bytes();
  let mut i = 0;
  while i < b.len() {
    if (b[i] == b'R' || b[i] == b'T') && i + 1 < b.len() && b[i + 1].is_ascii_digit() && (i == 0 || !b[i - 1].is_ascii_alphanumeric()) {
      let mut j = i + 1;
      let mut n = 0u32;
      while j < b.len() && b[j].is_ascii_digit() { n = n * 10 + (b[j] - b'0') as u32; j += 1; }
      if b[i] == b'R' { if res.is_none() { res = Some(n); } } else { tasks.push(n); }
      i = j;
    } else { i += 1; }
    if msg[i.min(msg.len())..].starts_with(" @ ") { break; }
  }
  // messages name the current executing task first, except "Hidden dependency ... read by" which also does.
  (res, tasks)
}

/// Stable part of an internal error message (text before any quoted key / location).
pub fn internal_sig(msg: &str) -> String {
  let head = msg.split(" @ ").next().unwrap_or(msg);
  let loc = msg.split(" @ ").nth(1).unwrap_or("");
  let file = loc.rsplit('/').next().unwrap_or("").split(':').next().unwrap_or("");
  let words: Vec<&str> = head.split_whitespace().take(8).collect();
  format!("{}@{}", words.join("-").chars().filter(|c| c.is_ascii_alphanumeric() || *c == '-' || *c == ':').collect::<String>(), file)
}
