//! Workload generators: well-formed programs, labelled mutations of them, and histories.

use crate::log::{Kind, OKind, Via};
use crate::prog::{Expr, Fail, Op, OutFn, Pred, Program, Sel, TaskDef};
use crate::util::{Rng, J};

pub const VALS: u32 = 4; // external values are None or 0..VALS

#[derive(Clone, Debug, PartialEq, Eq)]
pub enum Step {
  /// External change of a resource.
  Set(u32, Option<u32>),
  /// Arm / disarm a failing checker for (owner task, resource).
  Arm(u32, u32, bool),
  /// One session requiring the given roots in order.
  TopDown(Vec<u32>),
  /// One session: bottom-up build over all pending changed resources, then requires in the same session.
  BottomUp(Vec<u32>),
  /// Crash point: the k-th task operation of the next session panics.
  PanicAt(u64),
  /// As PanicAt, but entries of other user code (resource open, checkers, write functions) count as operations too.
  PanicAtAny(u64),
}

impl Step {
  pub fn render(&self) -> String {
    match self {
      Step::Set(r, v) => format!("set R{} = {:?}", r, v),
      Step::Arm(o, r, on) => format!("{} failing checker of T{} on R{}", if *on { "arm" } else { "disarm" }, o, r),
      Step::TopDown(roots) => format!("session: require {:?}", roots),
      Step::BottomUp(roots) => format!("session: bottom-up build of all pending changes, then require {:?}", roots),
      Step::PanicAt(k) => format!("inject: task operation #{} of the next session panics", k),
      Step::PanicAtAny(k) => format!("inject: user-code entry #{} (task operation, resource open, checker call or write function) of the next session panics", k),
    }
  }
  pub fn is_build(&self) -> bool { matches!(self, Step::TopDown(_) | Step::BottomUp(_)) }
}

#[derive(Clone, Debug)]
pub struct Case {
  pub prog: Program,
  pub init: Vec<Option<u32>>,
  pub steps: Vec<Step>,
}

impl Case {
  pub fn to_json(&self) -> J {
    J::obj()
      .with("program", self.prog.to_json())
      .with("initial_state", J::s(format!("{:?}", self.init)))
      .with("history", J::A(self.steps.iter().map(|s| J::s(s.render())).collect()))
  }
  pub fn digest(&self) -> u64 {
    let mut h = crate::util::Fnv::default();
    h.u64(self.prog.digest());
    h.str(&format!("{:?}{:?}", self.init, self.steps));
    h.0
  }
}

#[derive(Clone, Debug)]
pub struct GenOpts {
  pub max_tasks: usize,
  pub exact_only: bool,
  pub max_ops: usize,
  /// Upper bounds on the number of source / generated resources (3 / 3 in ordinary cases).
  pub max_src: usize,
  pub max_gen: usize,
}

fn pick_kind(rng: &mut Rng) -> Kind {
  match rng.below(100) { 0..=54 => Kind::Exact, 55..=74 => Kind::Parity, 75..=84 => Kind::Exists, _ => Kind::Always }
}
fn pick_okind(rng: &mut Rng) -> OKind {
  match rng.below(100) { 0..=59 => OKind::Exact, 60..=74 => OKind::Parity, _ => OKind::Always }
}
fn coarsen(rng: &mut Rng, k: Kind) -> Kind {
  if rng.chance(2, 3) { return k; }
  let all = Kind::all();
  let le: Vec<Kind> = all.iter().copied().filter(|x| *x <= k).collect();
  *rng.pick(&le)
}

fn sel_over(rng: &mut Rng, pool: &[u32]) -> Sel {
  if pool.len() >= 2 && rng.chance(2, 5) {
    let n = rng.range(2, pool.len().min(3));
    let mut v = pool.to_vec();
    rng.shuffle(&mut v);
    v.truncate(n);
    Sel::Dyn(v)
  } else {
    Sel::Const(*rng.pick(pool))
  }
}

fn gen_pred(rng: &mut Rng) -> Pred {
  match rng.below(5) {
    0 => Pred::LastEq(rng.below(3) as i32),
    1 => Pred::LastNe(rng.below(3) as i32),
    2 => Pred::AccOdd,
    3 => Pred::LastEq(-1),
    _ => Pred::AccMod3Is(rng.below(3) as u32),
  }
}

/// A well-formed program (DESIGN section 4): static roles, layered requires, generated resources read only through
/// ReadGen, one checker per target per task, write checker refines read checkers.
pub fn gen_program(rng: &mut Rng, o: &GenOpts) -> Program {
  let n_tasks = rng.range(2, o.max_tasks.max(2));
  let n_src = rng.range(1, o.max_src.max(1));
  let n_gen = rng.range(0, o.max_gen.min(n_tasks - 1));
  let n_res = n_src + n_gen;
  let mut owner: Vec<Option<u32>> = vec![None; n_res];
  for g in n_src..n_res { owner[g] = Some(rng.range(1, n_tasks - 1) as u32); }
  let srcs: Vec<u32> = (0..n_src as u32).collect();
  // checker kinds
  let mut rkind = vec![vec![Kind::Exact; n_res]; n_tasks];
  let mut tkind = vec![vec![OKind::Exact; n_tasks]; n_tasks];
  if !o.exact_only {
    for g in 0..n_res {
      match owner[g] {
        Some(w) => {
          let wk = pick_kind(rng);
          for t in 0..n_tasks { rkind[t][g] = if t as u32 == w { wk } else { coarsen(rng, wk) }; }
        }
        None => { for t in 0..n_tasks { rkind[t][g] = pick_kind(rng); } }
      }
    }
    for t in 0..n_tasks { for u in 0..n_tasks { tkind[t][u] = pick_okind(rng); } }
  }
  // Tasks are generated from the last to the first, so that a task can pick an intermediate task that is already known
  // to require a generator in every state (for transitive reads).
  let mut built: Vec<Option<TaskDef>> = vec![None; n_tasks];
  for i in (0..n_tasks).rev() {
    let later: Vec<u32> = ((i + 1) as u32..n_tasks as u32).collect();
    let gens: Vec<u32> = (n_src..n_res).filter(|&g| owner[g].unwrap() as usize > i).map(|g| g as u32).collect();
    // (g, m): m > i always (transitively) requires owner(g), m != owner(g)
    let mut vias: Vec<(u32, u32)> = Vec::new();
    for &g in &gens {
      let w = owner[g as usize].unwrap();
      for m in (i + 1)..n_tasks {
        if m as u32 != w && always_requires(&built, &owner, m as u32).contains(&w) { vias.push((g, m as u32)); }
      }
    }
    let n_ops = rng.range(1, o.max_ops);
    let mut ops = Vec::new();
    for _ in 0..n_ops {
      let roll = rng.below(100);
      if roll < 35 {
        ops.push(Op::Read { sel: sel_over(rng, &srcs), kind: None, fail_stamp: false });
      } else if roll < 60 && !later.is_empty() {
        ops.push(Op::Require { sel: sel_over(rng, &later), ok: None });
      } else if roll < 85 && !gens.is_empty() {
        if !vias.is_empty() && rng.chance(1, 3) {
          let (g, m) = *rng.pick(&vias);
          ops.push(Op::ReadVia { res: g, via: m });
        } else {
          ops.push(Op::ReadGen { sel: sel_over(rng, &gens), kind: None, ok: None });
        }
      } else if roll < 95 {
        ops.push(Op::SkipIf { pred: gen_pred(rng), n: rng.range(1, 2) as u8 });
      } else {
        ops.push(Op::Read { sel: sel_over(rng, &srcs), kind: None, fail_stamp: false });
      }
    }
    // writes of owned resources, each exactly once, at a random position
    for g in n_src..n_res {
      if owner[g] == Some(i as u32) {
        let expr = match rng.below(10) {
          0..=5 => Expr::AccMod(rng.range(2, VALS as usize) as u32),
          6 | 7 => Expr::LastMod(3),
          8 => Expr::Const(Some(rng.below(VALS as usize) as u32)),
          _ => Expr::Const(None),
        };
        let via = if rng.chance(3, 4) { Via::Ctx } else { Via::Declared };
        let pos = rng.below(ops.len() + 1);
        ops.insert(pos, Op::Write { res: g as u32, expr, via, kind: None, fail: Fail::None });
      }
    }
    let out = match rng.below(20) { 0..=9 => OutFn::Hash, 10..=16 => OutFn::Mod(rng.range(2, 4) as u32), _ => OutFn::Const(rng.below(3) as u32) };
    built[i] = Some(TaskDef { ops, rkind: rkind[i].clone(), tkind: tkind[i].clone(), out, wrap: 0 });
  }
  let tasks: Vec<TaskDef> = built.into_iter().map(|t| t.unwrap()).collect();
  Program { tasks, n_res, owner, label: if o.exact_only { "well-formed/exact".into() } else { "well-formed/mixed-checkers".into() } }
}

/// Tasks that task `m` requires in every state, transitively: targets of constant requires / ReadGen / ReadVia at
/// positions that no SkipIf can jump over.
fn always_requires(built: &[Option<TaskDef>], owner: &[Option<u32>], m: u32) -> Vec<u32> {
  let mut out: Vec<u32> = Vec::new();
  let mut stack = vec![m];
  while let Some(t) = stack.pop() {
    let Some(def) = &built[t as usize] else { continue; };
    let mut skippable = vec![false; def.ops.len()];
    for (p, op) in def.ops.iter().enumerate() {
      if let Op::SkipIf { n, .. } = op { for q in p + 1..=(p + *n as usize).min(def.ops.len().saturating_sub(1)) { skippable[q] = true; } }
    }
    for (p, op) in def.ops.iter().enumerate() {
      if skippable[p] { continue; }
      let target = match op {
        Op::Require { sel: Sel::Const(u), .. } => Some(*u),
        Op::ReadGen { sel: Sel::Const(g), .. } => owner[*g as usize],
        Op::ReadVia { via, .. } => Some(*via),
        _ => None,
      };
      if let Some(u) = target { if !out.contains(&u) { out.push(u); stack.push(u); } }
    }
  }
  out
}

pub fn gen_init(rng: &mut Rng, p: &Program) -> Vec<Option<u32>> {
  (0..p.n_res).map(|r| if p.owner[r].is_none() { if rng.chance(1, 8) { None } else { Some(rng.below(VALS as usize) as u32) } } else if rng.chance(1, 4) { Some(rng.below(VALS as usize) as u32) } else { None }).collect()
}

fn gen_changes(rng: &mut Rng, p: &Program, steps: &mut Vec<Step>, max: usize) {
  let n = rng.below(max + 1);
  for _ in 0..n {
    let r = rng.below(p.n_res) as u32;
    let v = if rng.chance(1, 6) { None } else { Some(rng.below(VALS as usize) as u32) };
    steps.push(Step::Set(r, v));
  }
}

fn gen_roots(rng: &mut Rng, p: &Program, max: usize) -> Vec<u32> {
  let n = rng.range(1, max);
  (0..n).map(|_| if rng.chance(1, 3) { 0 } else { rng.below(p.n_tasks()) as u32 }).collect()
}

#[derive(Clone, Copy, Debug, PartialEq, Eq)]
pub enum HistClass { TopDown, PureBottomUp, Mixed }

/// A history of `n_builds` builds with external changes in between.
pub fn gen_history(rng: &mut Rng, p: &Program, class: HistClass, n_builds: usize) -> Vec<Step> {
  let mut steps = Vec::new();
  let all: Vec<u32> = (0..p.n_tasks() as u32).collect();
  match class {
    HistClass::TopDown => {
      for i in 0..n_builds {
        if i > 0 { gen_changes(rng, p, &mut steps, 3); }
        steps.push(Step::TopDown(gen_roots(rng, p, 3)));
      }
    }
    HistClass::PureBottomUp => {
      // pending is empty at the start (nothing known), so a partial top-down is allowed first.
      let mut pending_empty = true;
      for i in 0..n_builds {
        let before = steps.len();
        if i > 0 { gen_changes(rng, p, &mut steps, 3); }
        if steps.len() > before { pending_empty = false; }
        if pending_empty && rng.chance(1, 2) {
          steps.push(Step::TopDown(gen_roots(rng, p, 3)));
        } else if !pending_empty && rng.chance(1, 8) {
          // a top-down session that requires *all* tasks also brings everything up to date
          let mut roots = all.clone();
          rng.shuffle(&mut roots);
          steps.push(Step::TopDown(roots));
          pending_empty = true;
        } else {
          let roots = if rng.chance(1, 3) { gen_roots(rng, p, 2) } else { vec![] };
          steps.push(Step::BottomUp(roots));
          pending_empty = true;
        }
      }
    }
    HistClass::Mixed => {
      for i in 0..n_builds {
        if i > 0 { gen_changes(rng, p, &mut steps, 3); }
        if rng.chance(1, 2) {
          steps.push(Step::TopDown(gen_roots(rng, p, 3)));
        } else {
          let roots = if rng.chance(1, 3) { gen_roots(rng, p, 2) } else { vec![] };
          steps.push(Step::BottomUp(roots));
        }
      }
    }
  }
  steps
}

// ---------------------------------------------------------------------------------------------------------------
// Labelled mutations of well-formed programs
// ---------------------------------------------------------------------------------------------------------------

fn other_kind(rng: &mut Rng, k: Kind) -> Kind { loop { let x = *rng.pick(&Kind::all()); if x != k { return x; } } }
fn other_okind(rng: &mut Rng, k: OKind) -> OKind { loop { let x = *rng.pick(&[OKind::Always, OKind::Parity, OKind::Exact]); if x != k { return x; } } }

/// `multi-checker-target`: some task declares a second dependency on a target it already uses, with another checker.
pub fn mutate_multi_checker(rng: &mut Rng, p: &mut Program) -> bool {
  let mut cands: Vec<(usize, usize)> = Vec::new();
  for (t, def) in p.tasks.iter().enumerate() {
    for (i, op) in def.ops.iter().enumerate() {
      match op {
        Op::Read { sel: Sel::Const(_), .. } | Op::Require { sel: Sel::Const(_), .. } => cands.push((t, i)),
        _ => {}
      }
    }
  }
  if cands.is_empty() { return false; }
  let (t, i) = *rng.pick(&cands);
  let def = &mut p.tasks[t];
  let dup = match def.ops[i].clone() {
    Op::Read { sel: Sel::Const(r), .. } => Op::Read { sel: Sel::Const(r), kind: Some(other_kind(rng, def.rkind[r as usize])), fail_stamp: false },
    Op::Require { sel: Sel::Const(u), .. } => Op::Require { sel: Sel::Const(u), ok: Some(other_okind(rng, def.tkind[u as usize])) },
    _ => unreachable!(),
  };
  let pos = rng.range(i + 1, def.ops.len());
  def.ops.insert(pos, dup);
  p.label = "multi-checker-target".into();
  true
}

/// `faulty`: some operations fail (resource write, write function, stamping); used for tracker nesting only.
pub fn mutate_faulty(rng: &mut Rng, p: &mut Program) -> bool {
  let mut n = 0;
  for def in p.tasks.iter_mut() {
    for op in def.ops.iter_mut() {
      match op {
        Op::Read { fail_stamp, .. } if rng.chance(1, 5) => { *fail_stamp = true; n += 1; }
        Op::Write { fail, .. } if rng.chance(1, 2) => { *fail = *rng.pick(&[Fail::ResWrite, Fail::WriteFn, Fail::Stamp]); n += 1; }
        _ => {}
      }
    }
  }
  p.label = "faulty-operations".into();
  n > 0
}

/// History with failing checkers armed and disarmed between builds.
pub fn add_arming(rng: &mut Rng, p: &Program, steps: &mut Vec<Step>) {
  let mut out = Vec::new();
  let mut armed: Vec<(u32, u32)> = Vec::new();
  for s in steps.drain(..) {
    if s.is_build() {
      if !armed.is_empty() && rng.chance(1, 2) {
        let k = rng.below(armed.len());
        let (o, r) = armed.remove(k);
        out.push(Step::Arm(o, r, false));
      }
      let n = rng.below(3);
      for _ in 0..n {
        let o = rng.below(p.n_tasks()) as u32;
        let r = rng.below(p.n_res) as u32;
        if !armed.contains(&(o, r)) { armed.push((o, r)); out.push(Step::Arm(o, r, true)); }
      }
    }
    out.push(s);
  }
  *steps = out;
}

// ---------------------------------------------------------------------------------------------------------------
// Curated library
// ---------------------------------------------------------------------------------------------------------------

fn td(ops: Vec<Op>, n_res: usize, n_tasks: usize, out: OutFn) -> TaskDef {
  TaskDef { ops, rkind: vec![Kind::Exact; n_res], tkind: vec![OKind::Exact; n_tasks], out, wrap: 0 }
}
fn rd(r: u32) -> Op { Op::Read { sel: Sel::Const(r), kind: None, fail_stamp: false } }
fn rq(t: u32) -> Op { Op::Require { sel: Sel::Const(t), ok: None } }
fn rg(r: u32) -> Op { Op::ReadGen { sel: Sel::Const(r), kind: None, ok: None } }
fn wr(r: u32, e: Expr) -> Op { Op::Write { res: r, expr: e, via: Via::Ctx, kind: None, fail: Fail::None } }

/// Minimal reproducers and hostile shapes. Returns (name, case).
pub fn curated() -> Vec<(&'static str, Case)> {
  let mut v = Vec::new();
  // K1: partial top-down build re-executes the producer, the bottom-up build then finds its stamp consistent.
  v.push(("k1-partial-top-down", Case {
    prog: Program { tasks: vec![td(vec![rq(1)], 1, 2, OutFn::Hash), td(vec![rd(0)], 1, 2, OutFn::Hash)], n_res: 1, owner: vec![None], label: "curated/k1".into() },
    init: vec![Some(1)],
    steps: vec![Step::TopDown(vec![0]), Step::Set(0, Some(2)), Step::TopDown(vec![1]), Step::BottomUp(vec![])],
  }));
  // K2: two reads of one resource with different checkers; two requires of one task with different checkers.
  {
    let mut t0 = td(vec![rd(0), Op::Read { sel: Sel::Const(0), kind: Some(Kind::Exists), fail_stamp: false }, rq(1), Op::Require { sel: Sel::Const(1), ok: Some(OKind::Always) }], 1, 2, OutFn::Hash);
    t0.rkind[0] = Kind::Exact;
    v.push(("k2-multi-checker", Case {
      prog: Program { tasks: vec![t0, td(vec![rd(0)], 1, 2, OutFn::Hash)], n_res: 1, owner: vec![None], label: "curated/k2".into() },
      init: vec![Some(1)],
      steps: vec![Step::TopDown(vec![0]), Step::Set(0, Some(2)), Step::TopDown(vec![0])],
    }));
  }
  // K5: T0 reads R1 through T1 (T0 -> T1 -> T2, T2 generates R1). A build of T1 panics right after T1 started to
  // re-execute (its dependencies are dropped at that point). The next build of T2 rewrites R1 and is diagnosed as a
  // hidden dependency of T0, although T0 still requires T1 and T1 - once it runs - requires T2.
  v.push(("k5-path-through-aborted-task", Case {
    prog: Program {
      tasks: vec![td(vec![Op::ReadVia { res: 1, via: 1 }], 2, 3, OutFn::Hash), td(vec![rg(1)], 2, 3, OutFn::Hash), td(vec![rd(0), wr(1, Expr::LastMod(4))], 2, 3, OutFn::Hash)],
      n_res: 2, owner: vec![None, Some(2)], label: "curated/k5".into() },
    init: vec![Some(1), None],
    steps: vec![Step::TopDown(vec![0]), Step::Set(0, Some(2)), Step::PanicAt(4), Step::TopDown(vec![1]), Step::Set(0, Some(3)), Step::TopDown(vec![2])],
  }));
  // F1 shape: require the generator, read the generated resource twice (re-inserted edge).
  v.push(("read-generated-twice", Case {
    prog: Program {
      tasks: vec![td(vec![rg(1), rg(1)], 2, 2, OutFn::Hash), td(vec![rd(0), wr(1, Expr::LastMod(4))], 2, 2, OutFn::Const(0))],
      n_res: 2, owner: vec![None, Some(1)], label: "curated/read-generated-twice".into() },
    init: vec![Some(1), None],
    steps: vec![Step::TopDown(vec![0]), Step::Set(0, Some(2)), Step::TopDown(vec![0]), Step::Set(0, Some(3)), Step::BottomUp(vec![0])],
  }));
  // diamond with early cut-off
  v.push(("diamond", Case {
    prog: Program {
      tasks: vec![td(vec![rq(1), rq(2)], 1, 4, OutFn::Hash), td(vec![rq(3)], 1, 4, OutFn::Mod(2)), td(vec![rq(3)], 1, 4, OutFn::Hash), td(vec![rd(0)], 1, 4, OutFn::Hash)],
      n_res: 1, owner: vec![None], label: "curated/diamond".into() },
    init: vec![Some(0)],
    steps: vec![Step::TopDown(vec![0]), Step::Set(0, Some(1)), Step::BottomUp(vec![]), Step::Set(0, Some(2)), Step::TopDown(vec![0]), Step::Set(0, None), Step::BottomUp(vec![0])],
  }));
  // conditional require of a never-seen task + deep chain
  v.push(("conditional-new-task", Case {
    prog: Program {
      tasks: vec![td(vec![rd(0), Op::SkipIf { pred: Pred::LastEq(0), n: 1 }, rq(1)], 1, 3, OutFn::Hash), td(vec![rq(2)], 1, 3, OutFn::Hash), td(vec![rd(0)], 1, 3, OutFn::Hash)],
      n_res: 1, owner: vec![None], label: "curated/conditional-new-task".into() },
    init: vec![Some(0)],
    steps: vec![Step::TopDown(vec![0]), Step::Set(0, Some(1)), Step::BottomUp(vec![]), Step::Set(0, Some(0)), Step::BottomUp(vec![]), Step::Set(0, Some(2)), Step::TopDown(vec![0])],
  }));
  v
}

// ---------------------------------------------------------------------------------------------------------------
// Injections (C05-C07) / role flips (C20): value-conditional operations added to a well-formed program
// ---------------------------------------------------------------------------------------------------------------

#[derive(Clone, Copy, Debug, PartialEq, Eq)]
pub enum Inject { HiddenRead, HiddenWrite, Overlap, Cycle, UserPanic, SelfRw }

fn task_mentions_res(def: &TaskDef, r: u32) -> bool {
  def.ops.iter().any(|o| match o {
    Op::Read { sel, .. } | Op::ReadGen { sel, .. } => sel.targets().contains(&r),
    Op::ReadVia { res, .. } => *res == r,
    Op::Write { res, .. } => *res == r,
    _ => false,
  })
}

/// Inserts `[Read(source), SkipIf(pred, 1), op]` (conditional) or just `op` at a random position of task `t`.
fn insert_conditional(rng: &mut Rng, p: &mut Program, t: usize, op: Op, avoid_src: Option<u32>) {
  let srcs: Vec<u32> = (0..p.n_res as u32).filter(|r| p.owner[*r as usize].is_none() && Some(*r) != avoid_src && !p.tasks[t].ops.iter().any(|o| matches!(o, Op::Write { res, .. } if res == r))).collect();
  let pos = rng.below(p.tasks[t].ops.len() + 1);
  if !srcs.is_empty() && rng.chance(3, 4) {
    let s = *rng.pick(&srcs);
    let pred = match rng.below(3) { 0 => Pred::LastEq(rng.below(3) as i32), 1 => Pred::LastNe(rng.below(3) as i32), _ => Pred::LastEq(-1) };
    let seq = vec![Op::Read { sel: Sel::Const(s), kind: None, fail_stamp: false }, Op::SkipIf { pred, n: 1 }, op];
    for (k, o) in seq.into_iter().enumerate() { p.tasks[t].ops.insert(pos + k, o); }
  } else {
    p.tasks[t].ops.insert(pos, op);
  }
}

pub fn inject(rng: &mut Rng, p: &mut Program, what: Inject) -> bool {
  let n = p.n_tasks();
  let via = if rng.chance(2, 3) { Via::Ctx } else { Via::Declared };
  let expr = if rng.chance(1, 2) { Expr::AccMod(VALS) } else { Expr::Const(Some(rng.below(VALS as usize) as u32)) };
  match what {
    Inject::HiddenRead => {
      let gens: Vec<u32> = (0..p.n_res as u32).filter(|r| p.owner[*r as usize].is_some()).collect();
      if gens.is_empty() { return false; }
      let g = *rng.pick(&gens);
      let w = p.owner[g as usize].unwrap() as usize;
      let cands: Vec<usize> = (0..n).filter(|t| *t != w).collect();
      if cands.is_empty() { return false; }
      let x = *rng.pick(&cands);
      // the injected read keeps the rule "write checker refines read checkers"
      let wk = p.tasks[w].rkind[g as usize];
      // one checker per target per task: reuse the kind of an earlier injected read of g in this task
      let prior = p.tasks[x].ops.iter().find_map(|o| match o { Op::Read { sel: Sel::Const(r), kind: Some(k), .. } if *r == g => Some(*k), _ => None });
      let kind = Some(prior.unwrap_or_else(|| if task_mentions_res(&p.tasks[x], g) { p.tasks[x].rkind[g as usize] } else { coarsen(rng, wk) }));
      insert_conditional(rng, p, x, Op::Read { sel: Sel::Const(g), kind, fail_stamp: false }, None);
    }
    Inject::HiddenWrite => {
      let srcs: Vec<u32> = (0..p.n_res as u32).filter(|r| p.owner[*r as usize].is_none()).collect();
      let s = *rng.pick(&srcs);
      let cands: Vec<usize> = (0..n).filter(|t| !task_mentions_res(&p.tasks[*t], s)).collect();
      if cands.is_empty() { return false; }
      let x = *rng.pick(&cands);
      let k = Kind::Exact; // refines every reader's checker
      insert_conditional(rng, p, x, Op::Write { res: s, expr, via, kind: Some(k), fail: Fail::None }, Some(s));
    }
    Inject::Overlap => {
      let gens: Vec<u32> = (0..p.n_res as u32).filter(|r| p.owner[*r as usize].is_some()).collect();
      if gens.is_empty() { return false; }
      let g = *rng.pick(&gens);
      let cands: Vec<usize> = (0..n).filter(|t| !task_mentions_res(&p.tasks[*t], g)).collect();
      if cands.is_empty() { return false; }
      let x = *rng.pick(&cands);
      let k = Kind::Exact; // refines every reader's checker
      insert_conditional(rng, p, x, Op::Write { res: g, expr, via, kind: Some(k), fail: Fail::None }, None);
    }
    Inject::SelfRw => {
      // One task both reads and writes a source (in either order), and some other task reads it without requiring
      // that task. pie rejects the double access itself; if it did not, the second task's read would be a hidden one.
      let srcs: Vec<u32> = (0..p.n_res as u32).filter(|r| p.owner[*r as usize].is_none()).collect();
      if srcs.is_empty() || n < 2 { return false; }
      let s = *rng.pick(&srcs);
      let cands: Vec<usize> = (0..n).filter(|t| !p.tasks[*t].ops.iter().any(|o| matches!(o, Op::Write { res, .. } if *res == s))).collect();
      if cands.is_empty() { return false; }
      let x = *rng.pick(&cands);
      if !task_mentions_res(&p.tasks[x], s) {
        let pos = rng.below(p.tasks[x].ops.len() + 1);
        p.tasks[x].ops.insert(pos, Op::Read { sel: Sel::Const(s), kind: None, fail_stamp: false });
      }
      insert_conditional(rng, p, x, Op::Write { res: s, expr, via, kind: Some(Kind::Exact), fail: Fail::None }, Some(s));
      let others: Vec<usize> = (0..n).filter(|t| *t != x).collect();
      let y = *rng.pick(&others);
      if !task_mentions_res(&p.tasks[y], s) { insert_conditional(rng, p, y, Op::Read { sel: Sel::Const(s), kind: None, fail_stamp: false }, Some(s)); }
    }
    Inject::UserPanic => {
      let j = rng.below(n);
      insert_conditional(rng, p, j, Op::Panic, None);
    }
    Inject::Cycle => {
      let j = rng.below(n);
      let i = if rng.chance(1, 6) { j } else { rng.below(j + 1) };
      let prior = p.tasks[j].ops.iter().find_map(|o| match o { Op::Require { sel: Sel::Const(t), ok: Some(k) } if *t == i as u32 => Some(*k), _ => None });
      let k = prior.unwrap_or_else(|| pick_okind(rng));
      insert_conditional(rng, p, j, Op::Require { sel: Sel::Const(i as u32), ok: Some(k) }, None);
    }
  }
  p.label = format!("injected/{:?}", what);
  true
}

/// The four stale-edge reproducers (finding K3) and their labels.
pub fn curated_k3() -> Vec<(&'static str, Case)> {
  let cond = |m: i32, op: Op| vec![rd(0), Op::SkipIf { pred: Pred::LastNe(m), n: 1 }, op];
  let mk = |name: &'static str, t0: Vec<Op>, t1: Vec<Op>, first: u32, second: u32| {
    (name, Case {
      prog: Program { tasks: vec![td(t0, 2, 2, OutFn::Hash), td(t1, 2, 2, OutFn::Hash)], n_res: 2, owner: vec![None, None], label: format!("curated/{}", name) },
      init: vec![Some(0), Some(1)],
      steps: vec![Step::TopDown(vec![first]), Step::Set(0, Some(1)), Step::TopDown(vec![second])],
    })
  };
  vec![
    // T1 writes R1 in mode 0; T0 reads R1 in mode 1 (nobody writes it then)
    mk("k3-stale-write-edge-hidden-read", cond(1, rd(1)), cond(0, wr(1, Expr::Const(Some(2)))), 1, 0),
    // T0 reads R1 in mode 0; T1 writes R1 in mode 1 (nobody reads it then)
    mk("k3-stale-read-edge-hidden-write", cond(0, rd(1)), cond(1, wr(1, Expr::Const(Some(2)))), 0, 1),
    // T0 writes R1 in mode 0; T1 writes R1 in mode 1
    mk("k3-stale-write-edge-overlap", cond(0, wr(1, Expr::Const(Some(2)))), cond(1, wr(1, Expr::Const(Some(3)))), 0, 1),
    // T0 requires T1 in mode 0; T1 requires T0 in mode 1
    mk("k3-stale-require-edge-cycle", cond(0, rq(1)), cond(1, rq(0)), 0, 1),
    // K4: T0 reads R1 and requires T1; T1 requires T2 only in mode 0; T2 writes R1. Legal in mode 0 (path T0->T1->T2);
    // after T1 is re-executed in mode 1 the path is gone and the store keeps reader T0 and writer T2 unrelated.
    ("k4-legality-path-removed-later", Case {
      prog: Program { tasks: vec![td(vec![rd(1), rq(1)], 2, 3, OutFn::Hash), td(cond(0, rq(2)), 2, 3, OutFn::Hash), td(vec![wr(1, Expr::Const(Some(2)))], 2, 3, OutFn::Hash)], n_res: 2, owner: vec![None, None], label: "curated/k4".into() },
      init: vec![Some(0), Some(1)],
      steps: vec![Step::TopDown(vec![0]), Step::Set(0, Some(1)), Step::TopDown(vec![1])],
    }),
  ]
}

// ---------------------------------------------------------------------------------------------------------------
// Exhaustive small-scope histories over curated hostile shapes
// ---------------------------------------------------------------------------------------------------------------

/// Hostile program shapes (well-formed). Each is driven through ALL histories up to a small length.
pub fn shapes() -> Vec<Program> {
  let mut v = Vec::new();
  // 0: require the generator, read the generated resource twice (edge re-insertion); generator writes a function of a source
  v.push(Program {
    tasks: vec![td(vec![rg(1), rd(0), rg(1)], 2, 2, OutFn::Hash), td(vec![rd(0), wr(1, Expr::LastMod(3))], 2, 2, OutFn::Const(0))],
    n_res: 2, owner: vec![None, Some(1)], label: "shape/read-generated-twice".into() });
  // 1: diamond with an early cut-off (Mod(2) output) on one side
  v.push(Program {
    tasks: vec![td(vec![rq(1), rq(2)], 1, 4, OutFn::Hash), td(vec![rq(3)], 1, 4, OutFn::Mod(2)), td(vec![rq(3)], 1, 4, OutFn::Hash), td(vec![rd(0)], 1, 4, OutFn::Mod(3))],
    n_res: 1, owner: vec![None], label: "shape/diamond-cutoff".into() });
  // 2: conditional require of a task never seen before, deep chain behind it
  v.push(Program {
    tasks: vec![td(vec![rd(0), Op::SkipIf { pred: Pred::LastEq(0), n: 1 }, rq(1)], 2, 3, OutFn::Hash), td(vec![rq(2)], 2, 3, OutFn::Hash), td(vec![rd(1)], 2, 3, OutFn::Hash)],
    n_res: 2, owner: vec![None, None], label: "shape/conditional-new-task".into() });
  // 3: conditional writer, reader through ReadGen, second reader with a coarse (Exists) checker
  {
    let mut t0 = td(vec![rg(1)], 2, 3, OutFn::Hash);
    let mut t1 = td(vec![rg(1), rd(0)], 2, 3, OutFn::Hash);
    t1.rkind[1] = Kind::Exists;
    t0.tkind[2] = OKind::Always;
    let t2 = td(vec![rd(0), Op::SkipIf { pred: Pred::LastEq(1), n: 1 }, wr(1, Expr::LastMod(3))], 2, 3, OutFn::Const(5));
    v.push(Program { tasks: vec![t0, t1, t2], n_res: 2, owner: vec![None, Some(2)], label: "shape/conditional-writer-coarse-reader".into() });
  }
  // 4: dynamic require target chosen by a source value, both targets read the same source
  v.push(Program {
    tasks: vec![td(vec![rd(0), Op::Require { sel: Sel::Dyn(vec![1, 2]), ok: None }], 1, 3, OutFn::Hash), td(vec![rd(0)], 1, 3, OutFn::Mod(2)), td(vec![rd(0)], 1, 3, OutFn::Hash)],
    n_res: 1, owner: vec![None], label: "shape/dynamic-require".into() });
  // 5: chain of two generated resources with declared (create_writer/written_to) writes and a parity reader
  {
    let mut t0 = td(vec![rg(2)], 3, 3, OutFn::Hash);
    t0.rkind[2] = Kind::Parity;
    let t1 = td(vec![rg(1), Op::Write { res: 2, expr: Expr::LastMod(4), via: Via::Declared, kind: None, fail: Fail::None }], 3, 3, OutFn::Const(1));
    let t2 = td(vec![rd(0), Op::Write { res: 1, expr: Expr::LastMod(3), via: Via::Declared, kind: None, fail: Fail::None }], 3, 3, OutFn::Const(2));
    v.push(Program { tasks: vec![t0, t1, t2], n_res: 3, owner: vec![None, Some(2), Some(1)], label: "shape/generated-chain-declared".into() });
  }
  v
}

/// The step alphabet of a shape: external changes of every resource to None/0/1/2, a top-down session per root, a
/// bottom-up build, and a bottom-up build followed by a require of task 0.
pub fn shape_alphabet(p: &Program) -> Vec<Step> {
  let mut a = Vec::new();
  for r in 0..p.n_res as u32 { for v in [None, Some(0), Some(1), Some(2)] { a.push(Step::Set(r, v)); } }
  for t in 0..p.n_tasks() as u32 { a.push(Step::TopDown(vec![t])); }
  a.push(Step::BottomUp(vec![]));
  a.push(Step::BottomUp(vec![0]));
  a
}

pub fn shape_case(shape: usize, len: usize, mut idx: u64) -> Case {
  let prog = shapes()[shape].clone();
  let alpha = shape_alphabet(&prog);
  let mut steps = vec![Step::TopDown(vec![0])];
  for _ in 0..len { steps.push(alpha[(idx % alpha.len() as u64) as usize].clone()); idx /= alpha.len() as u64; }
  // every history ends with a build so that the last changes are judged
  steps.push(Step::TopDown((0..prog.n_tasks() as u32).collect()));
  let init = vec![Some(0); prog.n_res].iter().enumerate().map(|(r, v)| if prog.owner[r].is_some() { None } else { *v }).collect();
  Case { prog, init, steps }
}
