//! `Ref`: the from-scratch interpreter. Runs task scripts against a copy of the resource state with no caching across
//! builds (memo per build only), applying writes, and *defines* cycle / overlap / hidden dependency. Shares no code
//! with pie (only the script interpreter `run_script`, which is the program itself).

use crate::log::{Kind, OKind, Via};
use crate::prog::{run_script, Env, Fail, Program, OBS_ERR};

#[derive(Clone, Debug, PartialEq, Eq)]
pub enum RefViol {
  Cycle { task: u32, target: u32 },
  Overlap { res: u32, task: u32, prev: u32 },
  HiddenRead { res: u32, reader: u32, writer: u32 },
  HiddenWrite { res: u32, writer: u32, reader: u32 },
  /// A task reads what it wrote, writes what it read, or writes twice: outside every property's program class.
  SelfAccess { res: u32, task: u32 },
  UserPanic { task: u32 },
  StepBound,
}

impl RefViol {
  /// Prefix of the panic message pie is expected to produce for this violation.
  pub fn pie_prefix(&self) -> &'static str {
    match self {
      RefViol::Cycle { .. } => "Cyclic task dependency",
      RefViol::Overlap { .. } => "Overlapping write",
      RefViol::HiddenRead { .. } | RefViol::HiddenWrite { .. } => "Hidden dependency",
      RefViol::SelfAccess { .. } => "<self access>",
      RefViol::UserPanic { .. } => crate::prog::USER_PANIC_MARKER,
      RefViol::StepBound => "<step bound>",
    }
  }
}

pub struct RefRun<'p> {
  pub p: &'p Program,
  pub state: Vec<Option<u32>>,
  pub memo: Vec<Option<u32>>,
  pub stack: Vec<u32>,
  pub writer_of: Vec<Option<u32>>,
  pub readers_of: Vec<Vec<u32>>,
  pub req: Vec<Vec<u32>>,
  pub exec_order: Vec<u32>,
  pub viol: Option<RefViol>,
  pub steps: u64,
  pub step_bound: u64,
  /// Lenient mode: hidden-dependency checks are switched off (used to find out what a task would go on to require).
  pub lenient: bool,
  /// Collect mode: cycle / overlap / hidden-dependency violations are recorded in `collected` and evaluation goes on
  /// (a cyclic require is skipped), to find every kind of violation the tasks contain in this state.
  pub collect: bool,
  pub collected: Vec<RefViol>,
  /// Collect mode only: every task that wrote each resource in this build (there can be several once overlaps are
  /// recorded instead of stopping the build).
  pub writers_all: Vec<Vec<u32>>,
  /// Some task read a resource before another task wrote it in this build (legal when the reader requires the writer,
  /// but then results depend on evaluation order: outside the class for which incremental = from-scratch is claimed).
  pub order_sensitive: bool,
}

impl<'p> RefRun<'p> {
  pub fn new(p: &'p Program, state: &[Option<u32>]) -> Self {
    let n = p.n_tasks();
    RefRun {
      p,
      state: state.to_vec(),
      memo: vec![None; n],
      stack: Vec::new(),
      writer_of: vec![None; p.n_res],
      readers_of: vec![Vec::new(); p.n_res],
      req: vec![Vec::new(); n],
      exec_order: Vec::new(),
      viol: None,
      steps: 0,
      step_bound: 200 * (n as u64 + 2) * 16,
      lenient: false,
      collect: false,
      collected: Vec::new(),
      writers_all: vec![Vec::new(); p.n_res],
      order_sensitive: false,
    }
  }

  /// Evaluates task `t` (from scratch within this build). `None` if a violation stopped the build.
  pub fn eval(&mut self, t: u32) -> Option<u32> {
    if self.viol.is_some() { return None; }
    if let Some(o) = self.memo[t as usize] { return Some(o); }
    self.stack.push(t);
    let p = self.p;
    let out = run_script(p, t, self);
    self.stack.pop();
    if self.viol.is_some() { return None; }
    self.memo[t as usize] = Some(out);
    self.exec_order.push(t);
    Some(out)
  }

  pub fn executed(&self, t: u32) -> bool { self.memo[t as usize].is_some() }

  fn cur(&self) -> u32 { *self.stack.last().expect("no executing task") }

  pub fn reaches(&self, a: u32, b: u32) -> bool {
    let mut seen = vec![false; self.req.len()];
    let mut stack = vec![a];
    while let Some(x) = stack.pop() {
      for &c in &self.req[x as usize] {
        if c == b { return true; }
        if !seen[c as usize] { seen[c as usize] = true; stack.push(c); }
      }
    }
    false
  }
}

impl Env for RefRun<'_> {
  fn tick(&mut self) {
    self.steps += 1;
    if self.steps > self.step_bound && self.viol.is_none() { self.viol = Some(RefViol::StepBound); }
  }

  fn require(&mut self, target: u32, ok: OKind) -> i32 {
    if self.viol.is_some() { return 0; }
    let cur = self.cur();
    if self.stack.contains(&target) {
      if self.collect { self.collected.push(RefViol::Cycle { task: cur, target }); return 0; }
      self.viol = Some(RefViol::Cycle { task: cur, target });
      return 0;
    }
    if !self.req[cur as usize].contains(&target) { self.req[cur as usize].push(target); }
    match self.eval(target) { Some(o) => ok.abs(o), None => 0 }
  }

  fn read(&mut self, res: u32, kind: Kind, fail_stamp: bool) -> i32 {
    if self.viol.is_some() { return 0; }
    let cur = self.cur();
    if let Some(w) = self.writer_of[res as usize] {
      if w == cur { self.viol = Some(RefViol::SelfAccess { res, task: cur }); return 0; }
      if !self.lenient && !self.reaches(cur, w) {
        if self.collect { self.collected.push(RefViol::HiddenRead { res, reader: cur, writer: w }); }
        else { self.viol = Some(RefViol::HiddenRead { res, reader: cur, writer: w }); return 0; }
      }
    }
    if self.collect && !self.lenient {
      for i in 0..self.writers_all[res as usize].len() {
        let w = self.writers_all[res as usize][i];
        if w != cur && Some(w) != self.writer_of[res as usize] && !self.reaches(cur, w) { self.collected.push(RefViol::HiddenRead { res, reader: cur, writer: w }); }
      }
    }
    if fail_stamp { return OBS_ERR; }
    if !self.readers_of[res as usize].contains(&cur) { self.readers_of[res as usize].push(cur); }
    kind.abs(self.state[res as usize])
  }

  fn write(&mut self, res: u32, _kind: Kind, val: Option<u32>, _via: Via, fail: Fail) {
    if self.viol.is_some() { return; }
    let cur = self.cur();
    if let Some(w) = self.writer_of[res as usize] {
      if w != cur && self.collect { self.collected.push(RefViol::Overlap { res, task: cur, prev: w }); }
      else {
        self.viol = Some(if w == cur { RefViol::SelfAccess { res, task: cur } } else { RefViol::Overlap { res, task: cur, prev: w } });
        return;
      }
    }
    if self.readers_of[res as usize].iter().any(|x| *x != cur) { self.order_sensitive = true; }
    for i in 0..self.readers_of[res as usize].len() {
      let x = self.readers_of[res as usize][i];
      if x == cur { self.viol = Some(RefViol::SelfAccess { res, task: cur }); return; }
      if !self.lenient && !self.reaches(x, cur) {
        if self.collect { self.collected.push(RefViol::HiddenWrite { res, writer: cur, reader: x }); }
        else { self.viol = Some(RefViol::HiddenWrite { res, writer: cur, reader: x }); return; }
      }
    }
    match fail {
      Fail::ResWrite | Fail::WriteFn => {}
      Fail::None | Fail::Stamp => { self.state[res as usize] = val; }
    }
    if fail == Fail::None {
      self.writer_of[res as usize] = Some(cur);
      if self.collect && !self.writers_all[res as usize].contains(&cur) { self.writers_all[res as usize].push(cur); }
    }
  }

  fn user_panic(&mut self) {
    if self.collect { let t = self.cur(); self.collected.push(RefViol::UserPanic { task: t }); return; }
    if self.viol.is_none() { self.viol = Some(RefViol::UserPanic { task: self.cur() }); }
  }
}
