//! C05 / C06, file-backed part of the clause "for a write through the context the abort happens before the resource
//! is modified": with pie's real `PathBuf` resource, merely opening the writer truncates the file, so the content of
//! the file after the aborted build is the observable.

use std::fs;
use std::io::Write;
use std::path::PathBuf;

use pie::resource::file::ExistsChecker;
use pie::resource::file::hash_checker::HashChecker;
use pie::{Context, Pie, Task};

use crate::report::{Alarm, Report};
use crate::util::{catch, J};

/// Writes `len` bytes of `byte` to the file through Context::write.
#[derive(Clone, PartialEq, Eq, Hash, Debug)]
struct Writer { path: PathBuf, byte: u8, len: usize, requires: Option<Box<Writer>> }
impl Task for Writer {
  type Output = u32;
  fn execute<C: Context>(&self, ctx: &mut C) -> u32 {
    if let Some(w) = &self.requires { ctx.require(w.as_ref(), pie::task::EqualsChecker); }
    let (byte, len) = (self.byte, self.len);
    let _ = ctx.write(&self.path, HashChecker, |f| { f.write_all(&vec![byte; len])?; Ok(()) });
    len as u32
  }
}
/// Reads the file (no require of anybody).
#[derive(Clone, PartialEq, Eq, Hash, Debug)]
struct Reader { path: PathBuf, exists_only: bool }
impl Task for Reader {
  type Output = u32;
  fn execute<C: Context>(&self, ctx: &mut C) -> u32 {
    if self.exists_only { let _ = ctx.read(&self.path, ExistsChecker); } else { let _ = ctx.read(&self.path, HashChecker); }
    1
  }
}

pub fn run(which: &'static str, seed: u64) -> Report {
  let mut rep = Report::new();
  let workdir = if std::path::Path::new("/dev/shm").is_dir() { PathBuf::from("/dev/shm") } else { PathBuf::from(std::env::var("PV_WORK").unwrap_or_else(|_| "/verif/.work".into())) };
  let dir = workdir.join(format!("pv-fwrite-{}-{}-{}", which, std::process::id(), seed));
  let _ = fs::remove_dir_all(&dir);
  if fs::create_dir_all(&dir).is_err() { rep.inconclusive.push(format!("cannot create {:?}", dir)); return rep; }
  let mut case = 0u64;
  for first_len in [1usize, 100, 9000] {
    for second_len in [0usize, 3, 20_000] {
      for split_sessions in [false, true] {
        for variant in 0..3u8 {
          // variant 0 (C06): first writer, then a different writer of the same file
          // variant 1 (C05): reader of an existing file (content check), then a writer nobody requires
          // variant 2 (C05): the same with an existence-only reader
          if (which == "C06") != (variant == 0) { continue; }
          case += 1;
          let path = dir.join(format!("f{}", case));
          let _ = fs::remove_file(&path);
          let mut pie: Pie<()> = Pie::default();
          let first = Writer { path: path.clone(), byte: b'A', len: first_len, requires: None };
          let second = Writer { path: path.clone(), byte: b'B', len: second_len, requires: None };
          let reader = Reader { path: path.clone(), exists_only: variant == 2 };
          if variant != 0 { let _ = fs::write(&path, vec![b'A'; first_len]); }
          let run = catch(|| {
            let mut s = pie.new_session();
            if variant == 0 { s.require(&first); } else { s.require(&reader); }
            if split_sessions { drop(s); s = pie.new_session(); }
            s.require(&second)
          });
          rep.evaluations += 1;
          rep.count("file_write_conflicts_driven");
          let after = fs::read(&path).ok();
          let want: Vec<u8> = vec![b'A'; first_len];
          let describe = format!("{} ({} bytes 'A' first, second writer {} bytes 'B', {})", if variant == 0 { "two writers of one file" } else if variant == 1 { "content reader, then an unrelated writer" } else { "existence reader, then an unrelated writer" }, first_len, second_len, if split_sessions { "two sessions" } else { "one session" });
          let mut alarm = |sig: &str, msg: String| {
            rep.alarm(Alarm { property: which, signature: format!("files:{}", sig), summary: format!("[file-write case {}] {}: {}", case, describe, msg),
              case: J::obj().with("sub", J::s("file-writes")).with("case", J::from(case)).with("seed", J::from(seed)), detail: J::obj().with("message", J::s(msg)) });
          };
          match run {
            Ok(v) => alarm("not-diagnosed", format!("the second write returned {} instead of aborting", v)),
            Err(m) => {
              let kind = crate::hist::abort_kind(&m);
              let expected = if variant == 0 { "overlapping-write" } else { "hidden-dependency" };
              if kind != expected { alarm("other-diagnosis", format!("aborted with {:?} instead of a {} error", m, expected)); }
              else if after.as_deref() != Some(&want[..]) {
                alarm("modified-before-abort", format!("the write was aborted ({}) but the file had already been modified: it now holds {:?} bytes starting {:?} instead of the {} bytes 'A' it held", kind, after.as_ref().map(|a| a.len()), after.as_ref().map(|a| a.iter().take(4).copied().collect::<Vec<u8>>()), first_len));
              } else { rep.nontrivial(case ^ (which.len() as u64) << 32); }
            }
          }
        }
      }
    }
  }
  let _ = fs::remove_dir_all(&dir);
  rep
}
