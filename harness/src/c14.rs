//! C14: the in-memory map resource gives read-your-writes with per-key-type isolation, `MapEqualsChecker` is consistent
//! exactly when value/absence equal the stamped one with all three stamping routes agreeing, and type-indexed resource
//! state is isolated per resource type. Model-based: one `HashMap` per key type / per resource type.

use std::any::Any;
use std::collections::HashMap;
use std::convert::Infallible;

use pie::resource::map::{GetGlobalMap, MapEqualsChecker, MapKey, MapKeyObjToObj, MapKeyToObj, MapValueObj};
use pie::{Context, Pie, Resource, ResourceChecker, ResourceState, Task};

use crate::report::{Alarm, Report};
use crate::util::{self, catch, Rng, J};

#[derive(Clone, Copy, PartialEq, Eq, Hash, Debug)]
pub struct K1(pub u32);
impl MapKey for K1 { type Value = u32; }
#[derive(Clone, Copy, PartialEq, Eq, Hash, Debug)]
pub struct K2(pub u32);
impl MapKey for K2 { type Value = u32; }
#[derive(Clone, Copy, PartialEq, Eq, Hash, Debug)]
pub struct K3(pub i32);
impl MapKey for K3 { type Value = String; }

#[derive(Clone, Copy, PartialEq, Eq, Hash, Debug)]
pub struct NewU(pub u32);

/// Which map, which key.
#[derive(Clone, Copy, Debug, PartialEq, Eq, Hash)]
pub enum Key { K1(u32), K2(u32), K3(u32), ObjU(u32), ObjDynU32(u32), ObjDynI32(u32), ObjDynNew(u32) }

const NKEYS: u32 = 3;
fn gen_key(rng: &mut Rng) -> Key {
  let v = rng.below(NKEYS as usize) as u32;
  match rng.below(7) { 0 => Key::K1(v), 1 => Key::K2(v), 2 => Key::K3(v), 3 => Key::ObjU(v), 4 => Key::ObjDynU32(v), 5 => Key::ObjDynI32(v), _ => Key::ObjDynNew(v) }
}

thread_local! { static DYN_ROUTE: std::cell::Cell<u32> = const { std::cell::Cell::new(0) }; }

/// A dynamic key, built through each of the four public construction routes in turn (they must all name the same key).
fn dyn_key(k: Key) -> MapKeyObjToObj {
  fn via<K: pie::Key>(v: K) -> MapKeyObjToObj {
    let route = DYN_ROUTE.with(|c| { let r = c.get(); c.set(r.wrapping_add(1)); r % 4 });
    match route {
      0 => MapKeyObjToObj::from(v),
      1 => MapKeyObjToObj::new(Box::new(v) as Box<dyn pie::trait_object::KeyObj>),
      2 => Box::new(v).into(),
      _ => (Box::new(v) as Box<dyn pie::trait_object::KeyObj>).into(),
    }
  }
  match k { Key::ObjDynU32(v) => via(v), Key::ObjDynI32(v) => via(v as i32), Key::ObjDynNew(v) => via(NewU(v)), _ => unreachable!() }
}

/// Trait-object values: 0 and 1 are boxed numbers, 2 and 3 are boxed *zero-sized* values of two different types (all
/// boxed zero-sized values share one dangling address; only their type tells them apart).
#[derive(Clone, Debug, PartialEq, Eq)]
pub struct Disabled;
fn obj(v: u32) -> Box<dyn MapValueObj> { match v { 2 => Box::new(Disabled), 3 => Box::new(()), _ => Box::new(v) } }
fn unobj(b: &Box<dyn MapValueObj>) -> Option<u32> {
  let any = b.as_ref().as_any();
  if any.downcast_ref::<Disabled>().is_some() { Some(2) } else if any.downcast_ref::<()>().is_some() { Some(3) } else { any.downcast_ref::<u32>().copied() }
}

#[derive(Clone, Copy, Debug)]
pub enum MOp {
  /// insert through the resource state's global map
  StateInsert(Key, u32),
  StateRemove(Key),
  /// Resource::write -> MapWriter::insert / entry / get_mut
  WriterInsert(Key, u32),
  WriterEntryOrInsert(Key, u32),
  WriterGetMutAdd(Key, u32),
  /// compare every route of reading
  ReadAll(Key),
  /// stamp with all three routes, apply an inner mutation, check
  StampMutateCheck(Key, Option<u32>),
}

fn gen_op(rng: &mut Rng) -> MOp {
  let k = gen_key(rng);
  let v = rng.below(4) as u32;
  match rng.below(10) {
    0 | 1 => MOp::StateInsert(k, v),
    2 => MOp::StateRemove(k),
    3 | 4 => MOp::WriterInsert(k, v),
    5 => MOp::WriterEntryOrInsert(k, v),
    6 => MOp::WriterGetMutAdd(k, v),
    7 => MOp::ReadAll(k),
    _ => MOp::StampMutateCheck(k, if rng.chance(1, 3) { None } else { Some(v) }),
  }
}

/// Typed access for a concrete key type; all operations of one key type go through this.
macro_rules! typed_ops {
  ($fname:ident, $K:ty, $V:ty, $mk:expr, $enc:expr, $dec:expr) => {
    fn $fname(pie: &mut Pie<()>, v: u32, op: &MOp, model: &mut HashMap<Key, u32>, mk: Key) -> Result<(), String> {
      let key: $K = $mk(v, mk);
      let enc = $enc;
      let dec = $dec;
      let want = model.get(&mk).copied();
      match op {
        MOp::StateInsert(_, val) => { pie.resource_state_mut::<$K>().get_global_map_mut().insert(key.clone(), enc(*val)); model.insert(mk, *val); }
        MOp::StateRemove(_) => { pie.resource_state_mut::<$K>().get_global_map_mut().remove(&key); model.remove(&mk); }
        MOp::WriterInsert(_, val) => {
          let st = pie.resource_state_mut::<$K>();
          let mut w = key.write(st).map_err(|e| format!("{:?}", e))?;
          let prev = w.insert(enc(*val)).and_then(|p| dec(&p));
          if prev != want { return Err(format!("MapWriter::insert on {:?} returned previous value {:?}, model says {:?}", mk, prev, want)); }
          if w.get().and_then(|p| dec(p)) != Some(*val) { return Err(format!("MapWriter::get after insert on {:?} does not return the inserted value", mk)); }
          model.insert(mk, *val);
        }
        MOp::WriterEntryOrInsert(_, val) => {
          let st = pie.resource_state_mut::<$K>();
          let mut w = key.write(st).map_err(|e| format!("{:?}", e))?;
          let got = dec(w.entry().or_insert(enc(*val)));
          let exp = want.unwrap_or(*val);
          if got != Some(exp) { return Err(format!("MapWriter::entry().or_insert on {:?} yields {:?}, model says {:?}", mk, got, exp)); }
          model.insert(mk, exp);
        }
        MOp::WriterGetMutAdd(_, val) => {
          let st = pie.resource_state_mut::<$K>();
          let mut w = key.write(st).map_err(|e| format!("{:?}", e))?;
          match (w.get_mut(), want) {
            (Some(slot), Some(old)) => { if dec(slot) != Some(old) { return Err(format!("MapWriter::get_mut on {:?} sees {:?}, model says {:?}", mk, dec(slot), old)); } *slot = enc((old + *val) % 4); model.insert(mk, (old + *val) % 4); }
            (None, None) => {}
            (g, m) => return Err(format!("MapWriter::get_mut on {:?} is {:?}, model says {:?}", mk, g.map(|x| dec(x)), m)),
          }
        }
        MOp::ReadAll(_) => {
          let st = pie.resource_state_mut::<$K>();
          let a = key.read(st).map_err(|e| format!("{:?}", e))?.and_then(|p| dec(p));
          if a != want { return Err(format!("Resource::read of {:?} yields {:?}, model says {:?}", mk, a, want)); }
          let b = st.get_global_map().get(&key).and_then(|p| dec(p));
          if b != want { return Err(format!("global map lookup of {:?} yields {:?}, model says {:?}", mk, b, want)); }
          let w = key.write(st).map_err(|e| format!("{:?}", e))?;
          let c = w.get().and_then(|p| dec(p));
          if c != want { return Err(format!("MapWriter::get of {:?} yields {:?}, model says {:?}", mk, c, want)); }
        }
        MOp::StampMutateCheck(_, newv) => {
          let st = pie.resource_state_mut::<$K>();
          let c = MapEqualsChecker;
          let s1 = ResourceChecker::<$K>::stamp(&c, &key, st).map_err(|e| format!("{:?}", e))?;
          let s2 = { let mut r = key.read(st).map_err(|e| format!("{:?}", e))?; ResourceChecker::<$K>::stamp_reader(&c, &key, &mut r).map_err(|e| format!("{:?}", e))? };
          let s3 = { let w = key.write(st).map_err(|e| format!("{:?}", e))?; ResourceChecker::<$K>::stamp_writer(&c, &key, w).map_err(|e| format!("{:?}", e))? };
          let d = |s: &Option<$V>| s.as_ref().and_then(|p| dec(p));
          if d(&s1) != want || d(&s2) != want || d(&s3) != want { return Err(format!("MapEqualsChecker stamps of {:?}: path={:?} reader={:?} writer={:?}, model says {:?}", mk, d(&s1), d(&s2), d(&s3), want)); }
          // untouched => consistent
          if ResourceChecker::<$K>::check(&c, &key, st, &s1).map_err(|e| format!("{:?}", e))?.is_some() { return Err(format!("MapEqualsChecker: {:?} untouched but inconsistent with its own stamp", mk)); }
          match newv { Some(nv) => { st.get_global_map_mut().insert(key.clone(), enc(*nv)); model.insert(mk, *nv); } None => { st.get_global_map_mut().remove(&key); model.remove(&mk); } }
          let now = model.get(&mk).copied();
          for (route, s) in [("path", &s1), ("reader", &s2), ("writer", &s3)] {
            let inconsistent = ResourceChecker::<$K>::check(&c, &key, st, s).map_err(|e| format!("{:?}", e))?.is_some();
            if inconsistent != (now != want) { return Err(format!("MapEqualsChecker ({} stamp): {:?} went from {:?} to {:?} but check says {}", route, mk, want, now, if inconsistent { "inconsistent" } else { "consistent" })); }
          }
        }
      }
      Ok(())
    }
  };
}

typed_ops!(ops_k1, K1, u32, |v: u32, _| K1(v), |x: u32| x, |p: &u32| Some(*p));
typed_ops!(ops_k2, K2, u32, |v: u32, _| K2(v), |x: u32| x, |p: &u32| Some(*p));
typed_ops!(ops_k3, K3, String, |v: u32, _| K3(v as i32), |x: u32| format!("s{}", x), |p: &String| p[1..].parse::<u32>().ok());
typed_ops!(ops_obju, MapKeyToObj<u32>, Box<dyn MapValueObj>, |v: u32, _| MapKeyToObj(v), |x: u32| obj(x), |p: &Box<dyn MapValueObj>| unobj(p));
typed_ops!(ops_objdyn, MapKeyObjToObj, Box<dyn MapValueObj>, |_v: u32, mk: Key| dyn_key(mk), |x: u32| obj(x), |p: &Box<dyn MapValueObj>| unobj(p));

fn apply(pie: &mut Pie<()>, op: &MOp, model: &mut HashMap<Key, u32>) -> Result<(), String> {
  let k = match op { MOp::StateInsert(k, _) | MOp::StateRemove(k) | MOp::WriterInsert(k, _) | MOp::WriterEntryOrInsert(k, _) | MOp::WriterGetMutAdd(k, _) | MOp::ReadAll(k) | MOp::StampMutateCheck(k, _) => *k };
  match k {
    Key::K1(v) => ops_k1(pie, v, op, model, k),
    Key::K2(v) => ops_k2(pie, v, op, model, k),
    Key::K3(v) => ops_k3(pie, v, op, model, k),
    Key::ObjU(v) => ops_obju(pie, v, op, model, k),
    Key::ObjDynU32(v) | Key::ObjDynI32(v) | Key::ObjDynNew(v) => ops_objdyn(pie, v, op, model, k),
  }
}

// ---- inside builds: a task that reads and writes map keys through the Context -------------------------------------

thread_local! { static RUNS: std::cell::RefCell<Vec<u32>> = const { std::cell::RefCell::new(Vec::new()) }; }

/// Reads K1(v) and K2(v), writes K1(v+10) := sum. Re-executed iff K1(v) or K2(v) changed (not when the same-numbered key
/// of another key type changed).
#[derive(Clone, PartialEq, Eq, Hash, Debug)]
struct Sum(u32);
impl Task for Sum {
  type Output = u32;
  fn execute<C: Context>(&self, ctx: &mut C) -> u32 {
    RUNS.with(|r| r.borrow_mut().push(self.0));
    let a = ctx.read(&K1(self.0), MapEqualsChecker).ok().and_then(|v| v.copied()).unwrap_or(100);
    let b = ctx.read(&K2(self.0), MapEqualsChecker).ok().and_then(|v| v.copied()).unwrap_or(200);
    let s = a * 10 + b;
    let _ = ctx.write(&K1(self.0 + 10), MapEqualsChecker, |w| { w.insert(s); Ok(()) });
    s
  }
}

fn build_leg(rng: &mut Rng, model: &mut HashMap<Key, u32>, pie: &mut Pie<()>) -> Result<(), String> {
  let v = rng.below(NKEYS as usize) as u32;
  let want = |m: &HashMap<Key, u32>| m.get(&Key::K1(v)).copied().unwrap_or(100) * 10 + m.get(&Key::K2(v)).copied().unwrap_or(200);
  let before = (model.get(&Key::K1(v)).copied(), model.get(&Key::K2(v)).copied());
  let out = catch(|| pie.new_session().require(&Sum(v))).map_err(|m| format!("build aborted: {}", m))?;
  if out != want(model) { return Err(format!("Sum({}) returned {} but the map holds K1={:?} K2={:?}", v, out, before.0, before.1)); }
  model.insert(Key::K1(v + 10), out);
  // change a same-numbered key of a third key type: must not re-execute
  let other = Key::ObjU(v);
  let nv = rng.below(4) as u32;
  apply(pie, &MOp::StateInsert(other, nv), model)?;
  RUNS.with(|r| r.borrow_mut().clear());
  let out2 = catch(|| pie.new_session().require(&Sum(v))).map_err(|m| format!("build aborted: {}", m))?;
  if RUNS.with(|r| !r.borrow().is_empty()) { return Err(format!("Sum({}) was re-executed after only a key of another key type ({:?}) changed", v, other)); }
  if out2 != out { return Err(format!("Sum({}) returned {} then {}", v, out, out2)); }
  // change K2(v): must re-execute and see the new value; the task's own write is read back by a reader
  let nv = (model.get(&Key::K2(v)).copied().unwrap_or(0) + 1) % 4;
  apply(pie, &MOp::StateInsert(Key::K2(v), nv), model)?;
  RUNS.with(|r| r.borrow_mut().clear());
  let out3 = catch(|| pie.new_session().require(&Sum(v))).map_err(|m| format!("build aborted: {}", m))?;
  if RUNS.with(|r| r.borrow().as_slice() != [v]) { return Err(format!("Sum({}) was not re-executed exactly once after K2({}) changed", v, v)); }
  if out3 != want(model) { return Err(format!("Sum({}) returned {} after K2 changed, expected {}", v, out3, want(model))); }
  model.insert(Key::K1(v + 10), out3);
  let back = pie.resource_state_mut::<K1>().get_global_map().get(&K1(v + 10)).copied();
  if back != Some(out3) { return Err(format!("value written by Sum({}) through the context is read back as {:?}", v, back)); }
  Ok(())
}

// ---- type-indexed state: two resource types that keep state of the SAME Rust type ----------------------------------

macro_rules! dummy_resource {
  ($name:ident) => {
    #[derive(Clone, PartialEq, Eq, Hash, Debug)]
    struct $name;
    impl Resource for $name {
      type Reader<'rs> = ();
      type Writer<'r> = ();
      type Error = Infallible;
      fn read<'rs, RS: ResourceState<Self>>(&self, _state: &'rs mut RS) -> Result<(), Infallible> { Ok(()) }
      fn write<'r, RS: ResourceState<Self>>(&'r self, _state: &'r mut RS) -> Result<(), Infallible> { Ok(()) }
    }
  };
}
dummy_resource!(RA);
dummy_resource!(RB);

#[derive(Default, Clone, Copy, PartialEq, Eq, Debug)]
struct S1(u32);
#[derive(Default, Clone, Copy, PartialEq, Eq, Debug)]
struct S2(u32);

/// Model: per resource type, which state type is stored and its value.
#[derive(Clone, Copy, PartialEq, Eq, Debug)]
enum Slot { Empty, IsS1(u32), IsS2(u32) }

#[derive(Clone, Copy, Debug)]
enum SOp { Get, GetMut(u32), Set(u32), GetBoxed, GetBoxedMut(u32), SetBoxed(u32), GetOrDefault, GetOrDefaultMut(u32) }

fn state_op<R: Resource, RS: ResourceState<R>>(st: &mut RS, as_s1: bool, op: SOp, slot: &mut Slot) -> Result<(), String> {
  // `as_s1` selects the type parameter S of the call.
  macro_rules! run {
    ($S:ident, $mk:expr, $is:ident, $other:ident) => {{
      let mine = match *slot { Slot::$is(v) => Some(v), _ => None };
      match op {
        SOp::Get => { let g = st.get::<$S>().map(|s| s.0); if g != mine { return Err(format!("get::<{}> = {:?}, model {:?}", stringify!($S), g, slot)); } }
        SOp::GetMut(add) => {
          match (st.get_mut::<$S>(), mine) {
            (Some(s), Some(v)) => { if s.0 != v { return Err(format!("get_mut::<{}> sees {}, model {}", stringify!($S), s.0, v)); } s.0 = v + add; *slot = Slot::$is(v + add); }
            (None, None) => {}
            (g, m) => return Err(format!("get_mut::<{}> is {:?}, model {:?}", stringify!($S), g.map(|s| s.0), m)),
          }
        }
        SOp::Set(v) => { st.set::<$S>($mk(v)); *slot = Slot::$is(v); }
        SOp::GetBoxed => {
          let b = st.get_boxed();
          let seen = match b { None => Slot::Empty, Some(b) => if let Some(s) = b.downcast_ref::<S1>() { Slot::IsS1(s.0) } else if let Some(s) = b.downcast_ref::<S2>() { Slot::IsS2(s.0) } else { return Err("get_boxed holds an unknown type".into()) } };
          if seen != *slot { return Err(format!("get_boxed = {:?}, model {:?}", seen, slot)); }
        }
        SOp::GetBoxedMut(add) => {
          match st.get_boxed_mut() {
            None => { if *slot != Slot::Empty { return Err(format!("get_boxed_mut = None, model {:?}", slot)); } }
            Some(b) => {
              if let Some(s) = b.downcast_mut::<S1>() { if Slot::IsS1(s.0) != *slot { return Err(format!("get_boxed_mut sees S1({}), model {:?}", s.0, slot)); } s.0 += add; *slot = Slot::IsS1(s.0); }
              else if let Some(s) = b.downcast_mut::<S2>() { if Slot::IsS2(s.0) != *slot { return Err(format!("get_boxed_mut sees S2({}), model {:?}", s.0, slot)); } s.0 += add; *slot = Slot::IsS2(s.0); }
              else { return Err("get_boxed_mut holds an unknown type".into()); }
            }
          }
        }
        SOp::SetBoxed(v) => { st.set_boxed(Box::new($mk(v)) as Box<dyn Any>); *slot = Slot::$is(v); }
        SOp::GetOrDefault => {
          let g = st.get_or_set_default::<$S>().0;
          let want = mine.unwrap_or(0);
          if g != want { return Err(format!("get_or_set_default::<{}> = {}, model {:?} (a matching state must be preserved, any other replaced by the default)", stringify!($S), g, slot)); }
          *slot = Slot::$is(want);
        }
        SOp::GetOrDefaultMut(add) => {
          let s = st.get_or_set_default_mut::<$S>();
          let want = mine.unwrap_or(0);
          if s.0 != want { return Err(format!("get_or_set_default_mut::<{}> = {}, model {:?}", stringify!($S), s.0, slot)); }
          s.0 += add;
          *slot = Slot::$is(want + add);
        }
      }
    }};
  }
  if as_s1 { run!(S1, S1, IsS1, IsS2) } else { run!(S2, S2, IsS2, IsS1) }
  Ok(())
}

fn gen_sop(rng: &mut Rng) -> SOp {
  let v = rng.below(5) as u32 + 1;
  match rng.below(8) { 0 => SOp::Get, 1 => SOp::GetMut(v), 2 => SOp::Set(v), 3 => SOp::GetBoxed, 4 => SOp::GetBoxedMut(v), 5 => SOp::SetBoxed(v), 6 => SOp::GetOrDefault, _ => SOp::GetOrDefaultMut(v) }
}

fn one_case(seed: u64, i: u64, n_ops: usize, rep: &mut Report) {
  let mut rng = Rng::derive(seed ^ 0xC14, i);
  DYN_ROUTE.with(|c| c.set(i as u32));
  let mut pie: Pie<()> = Pie::default();
  let mut model: HashMap<Key, u32> = HashMap::new();
  let mut slots = [Slot::Empty, Slot::Empty];
  let mut trace: Vec<String> = Vec::new();
  rep.evaluations += 1;
  let mut fail = |rep: &mut Report, sig: &str, msg: String, trace: &Vec<String>| {
    rep.alarm(Alarm { property: "C14", signature: sig.into(), summary: format!("[case {}] {}", i, msg),
      case: J::obj().with("sub", J::s("map")).with("case", J::from(i)).with("seed", J::from(seed)),
      detail: J::obj().with("operations", J::A(trace.iter().map(|t| J::s(t.clone())).collect())).with("message", J::s(msg)) });
  };
  for _ in 0..n_ops {
    match rng.below(10) {
      0..=5 => {
        let op = gen_op(&mut rng);
        trace.push(format!("{:?}", op));
        rep.count("map_operations");
        if let Err(m) = apply(&mut pie, &op, &mut model) { fail(rep, "map-model", m, &trace); return; }
      }
      6 => {
        trace.push("build: Sum(v) reads K1(v), K2(v), writes K1(v+10); perturb another key type; perturb K2(v)".into());
        rep.count("map_build_legs");
        if let Err(m) = build_leg(&mut rng, &mut model, &mut pie) { fail(rep, "map-in-build", m, &trace); return; }
      }
      _ => {
        let on_a = rng.chance(1, 2);
        let as_s1 = rng.chance(1, 2);
        let op = gen_sop(&mut rng);
        trace.push(format!("state of {} as {}: {:?}", if on_a { "RA" } else { "RB" }, if as_s1 { "S1" } else { "S2" }, op));
        rep.count("typed_state_operations");
        let r = if on_a { state_op::<RA, _>(pie.resource_state_mut::<RA>(), as_s1, op, &mut slots[0]) } else { state_op::<RB, _>(pie.resource_state_mut::<RB>(), as_s1, op, &mut slots[1]) };
        if let Err(m) = r { fail(rep, "typed-state", format!("{} ({})", m, if on_a { "resource type RA" } else { "resource type RB" }), &trace); return; }
        // the other resource type's state must be untouched
        let (other_is_a, other_slot) = if on_a { (false, slots[1]) } else { (true, slots[0]) };
        let seen = {
          let b = if other_is_a { pie.resource_state::<RA>().get_boxed().map(|b| (b.downcast_ref::<S1>().map(|s| s.0), b.downcast_ref::<S2>().map(|s| s.0))) } else { pie.resource_state::<RB>().get_boxed().map(|b| (b.downcast_ref::<S1>().map(|s| s.0), b.downcast_ref::<S2>().map(|s| s.0))) };
          match b { None => Slot::Empty, Some((Some(v), _)) => Slot::IsS1(v), Some((_, Some(v))) => Slot::IsS2(v), _ => Slot::Empty }
        };
        if seen != other_slot { fail(rep, "typed-state-isolation", format!("an access for one resource type changed the state of the other: it now holds {:?}, model says {:?}", seen, other_slot), &trace); return; }
      }
    }
  }
  // final sweep: every key of every key type
  for v in 0..NKEYS + 11 {
    for k in [Key::K1(v), Key::K2(v), Key::K3(v), Key::ObjU(v), Key::ObjDynU32(v), Key::ObjDynI32(v), Key::ObjDynNew(v)] {
      if let Err(m) = apply(&mut pie, &MOp::ReadAll(k), &mut model) { fail(rep, "map-model", format!("final sweep: {}", m), &trace); return; }
    }
  }
  if model.len() >= 3 { rep.nontrivial(seed ^ i.wrapping_mul(0x9E3779B97F4A7C15)); }
  rep.sample(|| J::A(trace.iter().take(40).map(|t| J::s(t.clone())).collect()));
}

pub fn run(tier: &str, seed: u64, replay: Option<u64>) -> Report {
  let scale: u64 = (if tier == "thorough" { 40 } else { 1 }) * util::env_u64("PV_SCALE", 1);
  let n: u64 = if tier == "miri" { 6 } else { 200_000 * scale };
  let n_ops = if tier == "miri" { 50 } else { 120 };
  let mut total = Report::new();
  if let Some(c) = replay { one_case(seed, c, n_ops, &mut total); return total; }
  let parts = util::parallel(n, if tier == "miri" { 1 } else { util::threads() }, 32, Report::new, |i, rep: &mut Report| { one_case(seed, i, n_ops, rep); rep.alarm_total < 20 });
  for p in parts { total.merge(p); }
  total.rule = "Random sequences of 120 operations per case over one Pie instance: map operations (insert/remove through the resource state's global map; insert, entry().or_insert, get_mut through MapWriter; reads through Resource::read, the global map and MapWriter::get; MapEqualsChecker stamped through all three routes, then mutated, then checked) over seven key kinds with equal bits (K1(u32), K2(u32), K3(i32)->String, MapKeyToObj<u32>, MapKeyObjToObj holding u32 / i32 / a newtype; the trait-object maps hold boxed numbers and boxed zero-sized values of two different types; every access building the key through the next of its four construction routes: from(k), new(Box<dyn KeyObj>), Box<K>.into(), Box<dyn KeyObj>.into()), a build leg (a task reading K1(v), K2(v) and writing K1(v+10) through the Context: correct value, not re-executed when only a same-numbered key of another key type changes, re-executed once when its own key changes, own write read back) and typed-state operations (all 8 ResourceState methods with matching and non-matching state type) on two resource types that both store the same Rust types. Model = one HashMap per key kind / one slot per resource type. non-trivial = case that ended with >= 3 live keys.".into();
  total.floor("map operations ran", total.get("map_operations") > 100);
  total.floor("typed state operations ran", total.get("typed_state_operations") > 50);
  total.floor("build legs ran", total.get("map_build_legs") > 5);
  total
}
