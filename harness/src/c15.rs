//! C15: task and resource identity is (concrete type, value). Families of types with identical representation, hash
//! and debug text are used as tasks and as resources inside generated sequences of builds.

use std::collections::hash_map::DefaultHasher;
use std::collections::{BTreeMap, BTreeSet};
use std::fmt::{self, Debug};
use std::hash::{Hash, Hasher};
use std::rc::Rc;
use std::sync::Arc;

use pie::resource::map::{GetGlobalMap, MapEqualsChecker, MapKey, MapKeyObjToObj, MapValueObj};
use pie::task::EqualsChecker;
use pie::trait_object::KeyObj;
use pie::verif::NodeKind;
use pie::{Context, Pie, Task};

use crate::report::{Alarm, Report};
use crate::util::{self, catch, Rng, J};

// Resource families: same bits, same hash, same debug text.
macro_rules! key_type {
  ($name:ident) => {
    #[derive(Clone, Copy, PartialEq, Eq, Hash)]
    pub struct $name(pub u32);
    impl Debug for $name { fn fmt(&self, f: &mut fmt::Formatter<'_>) -> fmt::Result { write!(f, "K({})", self.0) } }
    impl MapKey for $name { type Value = u32; }
  };
}
key_type!(K1);
key_type!(K2);

thread_local! { static BODY_RUNS: std::cell::RefCell<Vec<(&'static str, u32)>> = const { std::cell::RefCell::new(Vec::new()) }; }

// Task families. A(v) reads K1(v) and K1(v+10); B(v) reads K2(v); WA(v) writes K1(v+20); WB(v) writes K2(v+10) and
// K2(v+20): the same numbers in different key types, so any cross-type aliasing shows up as a hidden-dependency or
// overlapping-write abort, or as a wrong value.
macro_rules! reader_type {
  ($name:ident, $tag:expr, $key:ident, $mul:expr, $second:expr) => {
    #[derive(Clone, PartialEq, Eq, Hash)]
    pub struct $name(pub u32);
    impl Debug for $name { fn fmt(&self, f: &mut fmt::Formatter<'_>) -> fmt::Result { write!(f, "Task({})", self.0) } }
    impl Task for $name {
      type Output = u32;
      fn execute<C: Context>(&self, ctx: &mut C) -> u32 {
        BODY_RUNS.with(|b| b.borrow_mut().push(($tag, self.0)));
        let seen = ctx.read(&$key(self.0), MapEqualsChecker).ok().and_then(|v| v.copied()).unwrap_or(0);
        let seen2 = if $second { ctx.read(&$key(self.0 + 10), MapEqualsChecker).ok().and_then(|v| v.copied()).unwrap_or(0) } else { 0 };
        self.0 * $mul + seen * 1000 + seen2 * 100_000 + 1
      }
    }
  };
}
reader_type!(A, "A", K1, 3, true);
reader_type!(B, "B", K2, 5, false);

#[derive(Clone, PartialEq, Eq, Hash)]
pub struct WA(pub u32);
impl Debug for WA { fn fmt(&self, f: &mut fmt::Formatter<'_>) -> fmt::Result { write!(f, "Task({})", self.0) } }
impl Task for WA {
  type Output = u32;
  fn execute<C: Context>(&self, ctx: &mut C) -> u32 {
    BODY_RUNS.with(|b| b.borrow_mut().push(("WA", self.0)));
    let v = self.0;
    let _ = ctx.write(&K1(v + 20), MapEqualsChecker, |w| { w.insert(v + 1); Ok(()) });
    v + 40
  }
}
#[derive(Clone, PartialEq, Eq, Hash)]
pub struct WB(pub u32);
impl Debug for WB { fn fmt(&self, f: &mut fmt::Formatter<'_>) -> fmt::Result { write!(f, "Task({})", self.0) } }
impl Task for WB {
  type Output = u32;
  fn execute<C: Context>(&self, ctx: &mut C) -> u32 {
    BODY_RUNS.with(|b| b.borrow_mut().push(("WB", self.0)));
    let v = self.0;
    let _ = ctx.write(&K2(v + 10), MapEqualsChecker, |w| { w.insert(v + 2); Ok(()) });
    let _ = ctx.write(&K2(v + 20), MapEqualsChecker, |w| { w.insert(v + 3); Ok(()) });
    v + 50
  }
}

#[derive(Clone, PartialEq, Eq, Hash)]
pub struct Tup(pub (u32,));
impl Debug for Tup { fn fmt(&self, f: &mut fmt::Formatter<'_>) -> fmt::Result { write!(f, "Task({})", (self.0).0) } }
impl Task for Tup {
  type Output = u32;
  fn execute<C: Context>(&self, ctx: &mut C) -> u32 {
    BODY_RUNS.with(|b| b.borrow_mut().push(("Tup", (self.0).0)));
    // requires the same-valued A and B: three different tasks, three different outputs
    let a = ctx.require(&A((self.0).0), EqualsChecker);
    let b = ctx.require(&B((self.0).0), EqualsChecker);
    a * 7 + b
  }
}

// Zero-sized families: unit-struct tasks and unit-struct map keys. Derived Hash feeds nothing into the hasher, so all of
// them collide in every hash map; only the concrete type tells them apart.
macro_rules! unit_key { ($name:ident) => {
  #[derive(Clone, Copy, PartialEq, Eq, Hash)]
  pub struct $name;
  impl Debug for $name { fn fmt(&self, f: &mut fmt::Formatter<'_>) -> fmt::Result { write!(f, "Unit") } }
  impl MapKey for $name { type Value = u32; }
}; }
unit_key!(ZK1);
unit_key!(ZK2);
macro_rules! unit_task { ($name:ident, $tag:expr, $key:ident, $base:expr) => {
  #[derive(Clone, PartialEq, Eq, Hash)]
  pub struct $name;
  impl Debug for $name { fn fmt(&self, f: &mut fmt::Formatter<'_>) -> fmt::Result { write!(f, "Unit") } }
  impl Task for $name {
    type Output = u32;
    fn execute<C: Context>(&self, ctx: &mut C) -> u32 {
      BODY_RUNS.with(|b| b.borrow_mut().push(($tag, 0)));
      let seen = ctx.read(&$key, MapEqualsChecker).ok().and_then(|v| v.copied()).unwrap_or(0);
      $base + seen * 1000
    }
  }
}; }
unit_task!(ZA, "ZA", ZK1, 7);
unit_task!(ZB, "ZB", ZK2, 11);
// Type-erased map keys wrapping the typed keys: `MapKeyObjToObj(K1(n))` is a resource of another type than `K1(n)` (its
// own global map), although it hashes and prints like it. DynA(v) reads the erased twins of what WA(v) / WB(v) write;
// DynW(v) writes the erased twins of what A(v) reads.
#[derive(Clone, PartialEq, Eq, Hash)]
pub struct DynA(pub u32);
impl Debug for DynA { fn fmt(&self, f: &mut fmt::Formatter<'_>) -> fmt::Result { write!(f, "Task({})", self.0) } }
impl Task for DynA {
  type Output = u32;
  fn execute<C: Context>(&self, ctx: &mut C) -> u32 {
    BODY_RUNS.with(|b| b.borrow_mut().push(("DynA", self.0)));
    let p1 = ctx.read(&MapKeyObjToObj::from(K1(self.0 + 20)), MapEqualsChecker).ok().flatten().is_some() as u32;
    let p2 = ctx.read(&MapKeyObjToObj::from(K2(self.0 + 10)), MapEqualsChecker).ok().flatten().is_some() as u32;
    self.0 * 11 + 2 + 1000 * (p1 + p2)
  }
}
#[derive(Clone, PartialEq, Eq, Hash)]
pub struct DynW(pub u32);
impl Debug for DynW { fn fmt(&self, f: &mut fmt::Formatter<'_>) -> fmt::Result { write!(f, "Task({})", self.0) } }
impl Task for DynW {
  type Output = u32;
  fn execute<C: Context>(&self, ctx: &mut C) -> u32 {
    BODY_RUNS.with(|b| b.borrow_mut().push(("DynW", self.0)));
    let v = self.0;
    let _ = ctx.write(&MapKeyObjToObj::from(K1(v)), MapEqualsChecker, |w| { w.insert(Box::new(v) as Box<dyn MapValueObj>); Ok(()) });
    let _ = ctx.write(&MapKeyObjToObj::from(K1(v + 10)), MapEqualsChecker, |w| { w.insert(Box::new(v + 1) as Box<dyn MapValueObj>); Ok(()) });
    v + 60
  }
}

/// Where the model keeps the value of the unit keys ZK1 / ZK2 (inside the K1 / K2 model maps).
const ZSLOT: u32 = 1000;

#[derive(Clone, Copy, Debug, PartialEq, Eq, PartialOrd, Ord, Hash)]
pub enum Ty { A, B, Tup, BoxA, RcA, ArcA, BoxB, WA, WB, ZA, ZB, DynA, DynW }
const TYS: [Ty; 13] = [Ty::A, Ty::B, Ty::Tup, Ty::BoxA, Ty::RcA, Ty::ArcA, Ty::BoxB, Ty::WA, Ty::WB, Ty::ZA, Ty::ZB, Ty::DynA, Ty::DynW];

fn key_of(ty: Ty, v: u32) -> Box<dyn KeyObj> {
  match ty {
    Ty::A => Box::new(A(v)), Ty::B => Box::new(B(v)), Ty::Tup => Box::new(Tup((v,))),
    Ty::BoxA => Box::new(Box::new(A(v))), Ty::RcA => Box::new(Rc::new(A(v))), Ty::ArcA => Box::new(Arc::new(A(v))), Ty::BoxB => Box::new(Box::new(B(v))),
    Ty::WA => Box::new(WA(v)), Ty::WB => Box::new(WB(v)), Ty::ZA => Box::new(ZA), Ty::ZB => Box::new(ZB), Ty::DynA => Box::new(DynA(v)), Ty::DynW => Box::new(DynW(v)),
  }
}

fn require(s: &mut pie::Session, ty: Ty, v: u32) -> u32 {
  match ty {
    Ty::A => s.require(&A(v)), Ty::B => s.require(&B(v)), Ty::Tup => s.require(&Tup((v,))),
    Ty::BoxA => s.require(&Box::new(A(v))), Ty::RcA => s.require(&Rc::new(A(v))), Ty::ArcA => s.require(&Arc::new(A(v))), Ty::BoxB => s.require(&Box::new(B(v))),
    Ty::WA => s.require(&WA(v)), Ty::WB => s.require(&WB(v)), Ty::ZA => s.require(&ZA), Ty::ZB => s.require(&ZB), Ty::DynA => s.require(&DynA(v)), Ty::DynW => s.require(&DynW(v)),
  }
}

/// What executing (ty, v) from scratch returns given the two maps.
fn expected(ty: Ty, v: u32, k1: &BTreeMap<u32, u32>, k2: &BTreeMap<u32, u32>) -> u32 {
  let a = |v: u32| v * 3 + k1.get(&v).copied().unwrap_or(0) * 1000 + k1.get(&(v + 10)).copied().unwrap_or(0) * 100_000 + 1;
  let b = |v: u32| v * 5 + k2.get(&v).copied().unwrap_or(0) * 1000 + 1;
  match ty { Ty::A | Ty::BoxA | Ty::RcA | Ty::ArcA => a(v), Ty::B | Ty::BoxB => b(v), Ty::Tup => a(v) * 7 + b(v), Ty::WA => v + 40, Ty::WB => v + 50,
    Ty::ZA => 7 + k1.get(&ZSLOT).copied().unwrap_or(0) * 1000, Ty::ZB => 11 + k2.get(&ZSLOT).copied().unwrap_or(0) * 1000,
    Ty::DynA => v * 11 + 2, Ty::DynW => v + 60 }
}

fn hash_of(k: &dyn KeyObj) -> u64 { let mut h = DefaultHasher::new(); k.hash(&mut h); h.finish() }

fn direct_leg(rep: &mut Report, alarm: &dyn Fn(&mut Report, &str, String)) {
  // == and Hash on &dyn KeyObj for all pairs of the family (tasks and resource keys together)
  let mut keys: Vec<(String, u32, Box<dyn KeyObj>)> = Vec::new();
  for v in 0..3u32 {
    for ty in TYS { keys.push((format!("{:?}", ty), v, key_of(ty, v))); }
    keys.push(("K1".into(), v, Box::new(K1(v))));
    keys.push(("K2".into(), v, Box::new(K2(v))));
    keys.push(("u32".into(), v, Box::new(v)));
    keys.push(("erased K1".into(), v, Box::new(MapKeyObjToObj::from(K1(v)))));
    keys.push(("erased K2".into(), v, Box::new(MapKeyObjToObj::from(K2(v)))));
  }
  // zero-sized keys: one value per type
  keys.push(("ZK1".into(), 0, Box::new(ZK1)));
  keys.push(("ZK2".into(), 0, Box::new(ZK2)));
  keys.push(("unit".into(), 0, Box::new(())));
  keys.push(("phantom".into(), 0, Box::new(std::marker::PhantomData::<u8>)));
  keys.retain(|(t, v, _)| !((t == "ZA" || t == "ZB") && *v != 0));
  for (ta, va, a) in &keys {
    for (tb, vb, b) in &keys {
      let want = ta == tb && va == vb;
      let got = a.as_ref() == b.as_ref();
      rep.count("direct_key_pairs");
      if got != want { alarm(rep, "eq-dyn-keyobj", format!("({} {}) == ({} {}) through &dyn KeyObj is {} (expected {})", ta, va, tb, vb, got, want)); }
      if want && hash_of(a.as_ref()) != hash_of(b.as_ref()) { alarm(rep, "hash-dyn-keyobj", format!("equal keys ({} {}) hash differently", ta, va)); }
      let cl = a.clone();
      if cl.as_ref() != a.as_ref() { alarm(rep, "clone-dyn-keyobj", format!("clone of ({} {}) is not equal to it", ta, va)); }
    }
  }
  // the family really has identical hashes and debug text (otherwise the workload would not be hostile)
  let h = hash_of(&A(1));
  let same_hash = hash_of(&B(1)) == h && hash_of(&K1(1)) == h && hash_of(&K2(1)) == h;
  rep.floor("same-valued keys of different types hash identically", same_hash);
  rep.floor("same-valued tasks of different types have identical debug text", format!("{:?}", A(1)) == format!("{:?}", B(1)));
}

fn one_case(seed: u64, i: u64, rep: &mut Report) {
  let mut rng = Rng::derive(seed ^ 0xC15, i);
  let mut pie: Pie<()> = Pie::default();
  let mut k1: BTreeMap<u32, u32> = BTreeMap::new();
  let mut k2: BTreeMap<u32, u32> = BTreeMap::new();
  let mut known: BTreeSet<(Ty, u32)> = BTreeSet::new();
  let mut history: Vec<String> = Vec::new();
  let sessions = rng.range(3, 7);
  rep.evaluations += 1;
  let mut alarm = |rep: &mut Report, sig: &str, msg: String, history: &Vec<String>| {
    rep.alarm(Alarm { property: "C15", signature: sig.into(), summary: format!("[case {}] {}", i, msg),
      case: J::obj().with("sub", J::s("identity")).with("case", J::from(i)).with("seed", J::from(seed)),
      detail: J::obj().with("history", J::A(history.iter().map(|h| J::s(h.clone())).collect())).with("message", J::s(msg)) });
  };
  for _ in 0..sessions {
    // external changes to the two maps (same numbers, different key types)
    for _ in 0..rng.below(3) {
      let v = rng.below(3) as u32 + if rng.chance(1, 4) { 10 } else { 0 };
      let val = rng.below(4) as u32;
      if rng.chance(1, 6) {
        if rng.chance(1, 2) { pie.resource_state_mut::<ZK1>().get_global_map_mut().insert(ZK1, val); k1.insert(ZSLOT, val); history.push(format!("ZK1 := {}", val)); }
        else { pie.resource_state_mut::<ZK2>().get_global_map_mut().insert(ZK2, val); k2.insert(ZSLOT, val); history.push(format!("ZK2 := {}", val)); }
      }
      else if v >= 10 || rng.chance(1, 2) { pie.resource_state_mut::<K1>().get_global_map_mut().insert(K1(v), val); k1.insert(v, val); history.push(format!("K1({}) := {}", v, val)); }
      else { pie.resource_state_mut::<K2>().get_global_map_mut().insert(K2(v), val); k2.insert(v, val); history.push(format!("K2({}) := {}", v, val)); }
    }
    let n = rng.range(2, 6);
    let reqs: Vec<(Ty, u32)> = (0..n).map(|_| (*rng.pick(&TYS), rng.below(3) as u32)).map(|(ty, v)| (ty, if matches!(ty, Ty::ZA | Ty::ZB) { 0 } else { v })).collect();
    history.push(format!("session: require {:?}", reqs));
    BODY_RUNS.with(|b| b.borrow_mut().clear());
    let res = catch(|| {
      let mut s = pie.new_session();
      reqs.iter().map(|(ty, v)| require(&mut s, *ty, *v)).collect::<Vec<u32>>()
    });
    let outs = match res {
      Ok(o) => o,
      Err(m) => { alarm(rep, "abort", format!("requiring same-valued tasks of different types aborted: {}", m), &history); return; }
    };
    // the tasks write K1(v+100)/K2(v+100): reflect in the model (A-bodied tasks write K1, B-bodied K2)
    for (k, (ty, v)) in reqs.iter().enumerate() {
      let want = expected(*ty, *v, &k1, &k2);
      if outs[k] != want { alarm(rep, "wrong-output", format!("require({:?}({})) returned {} but executing it gives {}", ty, v, outs[k], want), &history); return; }
      known.insert((*ty, *v));
      if *ty == Ty::Tup { known.insert((Ty::A, *v)); known.insert((Ty::B, *v)); }
    }
    // one node per (type, value), never shared across types
    let dump = pie.verif_dump();
    let mut nodes: BTreeSet<(Ty, u32)> = BTreeSet::new();
    let mut n_task_nodes = 0;
    for nd in &dump.nodes {
      if let NodeKind::Task { task, output } = &nd.kind {
        n_task_nodes += 1;
        let any = task.as_ref().as_any();
        let id = if let Some(t) = any.downcast_ref::<A>() { Some((Ty::A, t.0)) }
          else if let Some(t) = any.downcast_ref::<B>() { Some((Ty::B, t.0)) }
          else if let Some(t) = any.downcast_ref::<Tup>() { Some((Ty::Tup, (t.0).0)) }
          else if let Some(t) = any.downcast_ref::<Box<A>>() { Some((Ty::BoxA, t.0)) }
          else if let Some(t) = any.downcast_ref::<Rc<A>>() { Some((Ty::RcA, t.0)) }
          else if let Some(t) = any.downcast_ref::<Arc<A>>() { Some((Ty::ArcA, t.0)) }
          else if let Some(t) = any.downcast_ref::<Box<B>>() { Some((Ty::BoxB, t.0)) }
          else if let Some(t) = any.downcast_ref::<WA>() { Some((Ty::WA, t.0)) }
          else if let Some(t) = any.downcast_ref::<WB>() { Some((Ty::WB, t.0)) }
          else if let Some(t) = any.downcast_ref::<DynA>() { Some((Ty::DynA, t.0)) }
          else if let Some(t) = any.downcast_ref::<DynW>() { Some((Ty::DynW, t.0)) }
          else if any.downcast_ref::<ZA>().is_some() { Some((Ty::ZA, 0)) }
          else if any.downcast_ref::<ZB>().is_some() { Some((Ty::ZB, 0)) } else { None };
        match id {
          Some(id) => {
            if !nodes.insert(id) { alarm(rep, "duplicate-node", format!("two task nodes for {:?}", id), &history); return; }
            let o = output.as_ref().and_then(|o| o.as_ref().as_any().downcast_ref::<u32>().copied());
            // cached output of a node must be the output of *its* type
            if let Some(o) = o { if known.contains(&id) && !matches!(id.0, Ty::A | Ty::B) || reqs.contains(&id) { let want = expected(id.0, id.1, &k1, &k2); if reqs.contains(&id) && o != want { alarm(rep, "cached-output-of-other-type", format!("node {:?} caches {} but its own output is {}", id, o, want), &history); return; } } }
          }
          None => { alarm(rep, "unknown-node", "a task node of an unknown type".into(), &history); return; }
        }
      }
    }
    if nodes != known || n_task_nodes != known.len() {
      alarm(rep, "node-set", format!("task nodes {:?} but the distinct (type, value) tasks required so far are {:?}", nodes, known), &history);
      return;
    }
    // executions: at most one body run per (outer type, value) per session is implied by node identity; count them
    let runs = BODY_RUNS.with(|b| b.borrow().len());
    rep.add("task_body_runs", runs as u64);
    rep.add("sessions", 1);
    // repeated identical session: nothing runs, same outputs
    BODY_RUNS.with(|b| b.borrow_mut().clear());
    let again = catch(|| { let mut s = pie.new_session(); reqs.iter().map(|(ty, v)| require(&mut s, *ty, *v)).collect::<Vec<u32>>() });
    if again.as_ref().ok() != Some(&outs) { alarm(rep, "repeat-differs", format!("repeating the session returned {:?} instead of {:?}", again, outs), &history); return; }
    let runs2 = BODY_RUNS.with(|b| b.borrow().len());
    if runs2 != 0 { alarm(rep, "repeat-executes", format!("repeating the session executed {} task bodies", runs2), &history); return; }
  }
  if known.len() >= 4 { rep.nontrivial(seed ^ i.wrapping_mul(0x9E3779B97F4A7C15)); }
  rep.max("max_distinct_tasks_in_one_instance", known.len() as u64);
  rep.sample(|| J::A(history.iter().map(|h| J::s(h.clone())).collect()));
}

pub fn run(tier: &str, seed: u64, replay: Option<u64>) -> Report {
  let scale: u64 = (if tier == "thorough" { 40 } else { 1 }) * util::env_u64("PV_SCALE", 1);
  let n: u64 = if tier == "miri" { 4 } else { 200_000 * scale };
  let mut total = Report::new();
  if let Some(c) = replay { one_case(seed, c, &mut total); return total; }
  direct_leg(&mut total, &|rep: &mut Report, sig: &str, msg: String| {
    rep.alarm(Alarm { property: "C15", signature: sig.into(), summary: msg.clone(), case: J::obj().with("sub", J::s("direct")), detail: J::obj().with("message", J::s(msg)) });
  });
  let parts = util::parallel(n, if tier == "miri" { 1 } else { util::threads() }, 32, Report::new, |i, rep: &mut Report| { one_case(seed, i, rep); rep.alarm_total < 20 });
  for p in parts { total.merge(p); }
  total.rule = "Families with identical representation, hash and debug text: tasks A(u32) (reads K1(v), K1(v+10)), B(u32) (reads K2(v)), Tup((u32,)) (requires the same-valued A and B), Box<A>, Rc<A>, Arc<A>, Box<B>, WA(u32) (writes K1(v+20)), WB(u32) (writes K2(v+10), K2(v+20)); map-key resources K1(u32), K2(u32) and their type-erased twins MapKeyObjToObj(K1(n)) / MapKeyObjToObj(K2(n)) (DynA(v) reads the erased twins of what WA/WB write, DynW(v) writes the erased twins of what A reads: sharing a node would be diagnosed as a hidden dependency or an overlapping write); zero-sized families (all hash alike because they hash nothing): unit-struct tasks ZA (reads unit key ZK1), ZB (reads unit key ZK2), plus () and PhantomData as keys in the direct leg. Direct leg: ==, Hash and clone on &dyn KeyObj for all ordered pairs of 12 kinds x 3 values and the zero-sized kinds. Build leg: random sequences of sessions requiring random members with values 0..3, interleaved with external changes of K1/K2 entries carrying the same numbers; Oracle: every returned output equals the from-scratch formula for that (type, value); the store dump holds exactly one task node per distinct (type, value) required so far; no abort (a cross-type alias would be diagnosed as overlap / hidden dependency); an immediately repeated session runs no task body. non-trivial = instance that ended with >= 4 distinct tasks.".into();
  total.floor("sessions ran", total.get("sessions") > 10 || tier == "miri");
  total
}
