//! File-backed slice of C01 / C03: the same scripted programs, but over pie's real `PathBuf` resource and its real
//! checkers (HashChecker, ExistsChecker, ModifiedChecker) and output checkers (EqualsChecker, AlwaysConsistent), on a
//! real temporary directory. Oracle: the from-scratch interpreter `Ref` over the abstract state (file content = number).

use std::cell::RefCell;
use std::collections::BTreeSet;
use std::fmt::{self, Debug};
use std::fs::{self, File};
use std::hash::{Hash, Hasher};
use std::io::{Read, Write};
use std::path::PathBuf;
use std::rc::Rc;
use std::time::{Duration, SystemTime};

use pie::resource::file::hash_checker::HashChecker;
use pie::resource::file::{ExistsChecker, FsError, ModifiedChecker};
use pie::task::{AlwaysConsistent, EqualsChecker};
use pie::trait_object::KeyObj;
use pie::{Context, Pie, Task};

use crate::gen::{Case, Step};
use crate::log::{Kind, OKind, Via};
use crate::prog::{run_script, Env, Fail, Program, OBS_ERR};
use crate::refm::RefRun;
use crate::report::{Alarm, Report};
use crate::util::{catch, J};

thread_local! {
  static EXECS: RefCell<Vec<u32>> = const { RefCell::new(Vec::new()) };
  static KNOWN: RefCell<BTreeSet<u32>> = const { RefCell::new(BTreeSet::new()) };
}

/// In this leg the checker kinds map to real checkers: Exact -> HashChecker, Exists -> ExistsChecker, Parity ->
/// ModifiedChecker (the harness bumps the modification time on every external change, so "modified" refines content),
/// Always is not generated. Output checkers: Exact -> EqualsChecker, anything else -> AlwaysConsistent.
#[derive(Clone)]
pub struct FProg { pub id: u32, pub table: Rc<Program>, pub root: Rc<PathBuf> }
impl PartialEq for FProg { fn eq(&self, o: &Self) -> bool { self.id == o.id } }
impl Eq for FProg {}
impl Hash for FProg { fn hash<H: Hasher>(&self, state: &mut H) { self.id.hash(state); } }
impl Debug for FProg { fn fmt(&self, f: &mut fmt::Formatter<'_>) -> fmt::Result { write!(f, "F{}", self.id) } }

pub fn path_of(root: &PathBuf, res: u32) -> PathBuf { root.join(format!("r{}", res)) }

fn parse(mut f: impl Read) -> Option<u32> { let mut s = String::new(); f.read_to_string(&mut s).ok()?; s.trim().parse().ok() }

impl Task for FProg {
  type Output = u32;
  fn execute<C: Context>(&self, context: &mut C) -> u32 {
    EXECS.with(|e| e.borrow_mut().push(self.id));
    let mut env = FEnv { ctx: context, me: self };
    run_script(&self.table, self.id, &mut env)
  }
}

struct FEnv<'a, C: Context> { ctx: &'a mut C, me: &'a FProg }

/// What a task observes of a file under a given kind: exactly `Kind::abs`, as in the reference interpreter. (Under
/// kind Parity the dependency is guarded by the modified-time checker, which sees more than the task does.)
fn file_abs(kind: Kind, v: Option<u32>) -> i32 { kind.abs(v) }

impl<C: Context> Env for FEnv<'_, C> {
  fn tick(&mut self) {}
  fn require(&mut self, target: u32, ok: OKind) -> i32 {
    KNOWN.with(|k| k.borrow_mut().insert(target));
    let t = FProg { id: target, table: self.me.table.clone(), root: self.me.root.clone() };
    match ok {
      OKind::Exact => OKind::Exact.abs(self.ctx.require(&t, EqualsChecker)),
      _ => { self.ctx.require(&t, AlwaysConsistent); 0 }
    }
  }
  fn read(&mut self, res: u32, kind: Kind, _fail_stamp: bool) -> i32 {
    let p = path_of(&self.me.root, res);
    let r = match kind {
      Kind::Exact | Kind::Always => self.ctx.read(&p, HashChecker),
      Kind::Exists => self.ctx.read(&p, ExistsChecker),
      Kind::Parity => self.ctx.read(&p, ModifiedChecker),
    };
    match r {
      Ok(mut open) => { let v = open.as_file().and_then(|f| parse(f)); file_abs(kind, v) }
      Err(_) => OBS_ERR,
    }
  }
  fn write(&mut self, res: u32, kind: Kind, val: Option<u32>, via: Via, _fail: Fail) {
    let p = path_of(&self.me.root, res);
    let body = |f: &mut File| -> Result<(), FsError> {
      match val {
        Some(v) => { f.write_all(v.to_string().as_bytes())?; f.flush()?; }
        None => { let _ = fs::remove_file(&p); } // a task may remove the file it was given a writer for
      }
      Ok(())
    };
    let _ = match via {
      Via::Ctx => match kind {
        Kind::Exact | Kind::Always => self.ctx.write(&p, HashChecker, body),
        Kind::Exists => self.ctx.write(&p, ExistsChecker, body),
        Kind::Parity => self.ctx.write(&p, ModifiedChecker, body),
      },
      Via::Declared => {
        let ok = match self.ctx.create_writer(&p) { Ok(mut f) => body(&mut f).is_ok(), Err(_) => false };
        if !ok { return; }
        match kind {
          Kind::Exact | Kind::Always => self.ctx.written_to(&p, HashChecker),
          Kind::Exists => self.ctx.written_to(&p, ExistsChecker),
          Kind::Parity => self.ctx.written_to(&p, ModifiedChecker),
        }
      }
    };
  }
  fn user_panic(&mut self) {}
}

/// Adapts a generated program to this leg: Always resource kinds become Exists (coarsest real checker), Parity output
/// kinds become Always; the refinement rule (write checker refines read checkers) is kept: Exact > Parity(modified) > Exists.
pub fn adapt(p: &mut Program) {
  for t in p.tasks.iter_mut() {
    for k in t.rkind.iter_mut() { if *k == Kind::Always { *k = Kind::Exists; } }
    for k in t.tkind.iter_mut() { if *k == OKind::Parity { *k = OKind::Always; } }
  }
  // a modified-time write checker does not refine a hash read checker in general; keep generated resources simple:
  // owner kind Exact, readers Exact or Exists
  for g in 0..p.n_res {
    if let Some(w) = p.owner[g] {
      for (i, t) in p.tasks.iter_mut().enumerate() {
        if i as u32 == w { t.rkind[g] = Kind::Exact; } else if t.rkind[g] == Kind::Parity { t.rkind[g] = Kind::Exact; }
      }
    }
  }
  p.label = format!("{}+files", p.label);
}

struct World { root: Rc<PathBuf>, n_res: usize, clock: u64 }
impl World {
  fn set(&mut self, res: u32, v: Option<u32>) {
    let p = path_of(&self.root, res);
    match v {
      Some(v) => {
        let _ = fs::write(&p, v.to_string());
        // explicit, strictly increasing modification times: never left to the clock
        self.clock += 1;
        if let Ok(f) = File::open(&p) { let _ = f.set_modified(SystemTime::UNIX_EPOCH + Duration::from_secs(1_700_000_000 + self.clock * 10)); }
      }
      None => { let _ = fs::remove_file(&p); }
    }
  }
  fn read(&self) -> Vec<Option<u32>> {
    (0..self.n_res as u32).map(|r| File::open(path_of(&self.root, r)).ok().and_then(|f| parse(f))).collect()
  }
}

pub fn run_case(case: &Case, which: &'static str, seed: u64, case_no: u64, workdir: &PathBuf, rep: &mut Report) {
  let mut prog = case.prog.clone();
  adapt(&mut prog);
  let prog = Rc::new(prog);
  let dir = workdir.join(format!("pv-files-{}-{}-{}", std::process::id(), seed, case_no));
  let _ = fs::remove_dir_all(&dir);
  if fs::create_dir_all(&dir).is_err() { rep.inconclusive.push(format!("cannot create {:?}", dir)); return; }
  let root = Rc::new(dir.clone());
  let mut world = World { root: root.clone(), n_res: prog.n_res, clock: 0 };
  for (r, v) in case.init.iter().enumerate() { world.set(r as u32, *v); }
  let mut pie: Pie<()> = Pie::default();
  KNOWN.with(|k| k.borrow_mut().clear());
  let mut pending: BTreeSet<u32> = BTreeSet::new();
  rep.evaluations += 1;
  let mut step_no = 0usize;
  let mut fail = |rep: &mut Report, sig: &str, msg: String, step_no: usize| {
    rep.alarm(Alarm { property: which, signature: format!("files:{}", sig), summary: format!("[files case {} step {}] {}", case_no, step_no, msg),
      case: J::obj().with("sub", J::s("files")).with("case", J::from(case_no)).with("seed", J::from(seed)),
      detail: Case { prog: (*prog).clone(), init: case.init.clone(), steps: case.steps.clone() }.to_json().with("failed_at_step", J::from(step_no)).with("message", J::s(msg)) });
  };
  let task = |id: u32| FProg { id, table: prog.clone(), root: root.clone() };
  'steps: for (i, st) in case.steps.iter().enumerate() {
    step_no = i;
    match st {
      Step::Set(r, v) => { world.set(*r, *v); pending.insert(*r); }
      Step::Arm(..) | Step::PanicAt(_) | Step::PanicAtAny(_) => {}
      Step::TopDown(roots) | Step::BottomUp(roots) => {
        let bottom_up = matches!(st, Step::BottomUp(_));
        let pre = world.read();
        EXECS.with(|e| e.borrow_mut().clear());
        let res = catch(|| {
          let mut s = pie.new_session();
          if bottom_up {
            let mut bu = s.create_bottom_up_build();
            for r in &pending { let p = path_of(&root, *r); bu.schedule_tasks_affected_by(&p as &dyn KeyObj); }
            bu.update_affected_tasks();
          }
          roots.iter().map(|r| { KNOWN.with(|k| k.borrow_mut().insert(*r)); s.require(&task(*r)) }).collect::<Vec<u32>>()
        });
        let outs = match res { Ok(o) => o, Err(m) => { fail(rep, "abort", format!("a well-formed file-backed program aborted: {}", m), step_no); break 'steps; } };
        let executed: Vec<u32> = EXECS.with(|e| e.borrow().clone());
        rep.add("file_task_executions", executed.len() as u64);
        rep.add("file_sessions", 1);
        // Ref on the pre-state: roots, then whatever pie executed
        let mut r = RefRun::new(&prog, &pre);
        let want: Vec<Option<u32>> = roots.iter().map(|t| r.eval(*t)).collect();
        for t in &executed { if r.viol.is_none() { r.eval(*t); } }
        if r.viol.is_some() { rep.inconclusive.push(format!("generator bug: Ref found {:?} in a well-formed program", r.viol)); break 'steps; }
        for (k, root_task) in roots.iter().enumerate() {
          if Some(outs[k]) != want[k] { fail(rep, "stale-output", format!("require(F{}) returned {} but executing the tasks from scratch on the same files gives {:?}", root_task, outs[k], want[k]), step_no); break 'steps; }
        }
        let post = world.read();
        for res in 0..prog.n_res {
          let same = match r.writer_of[res] { Some(w) => { let k = prog.tasks[w as usize].rkind[res]; file_abs(k, post[res]) == file_abs(k, r.state[res]) } None => post[res] == r.state[res] };
          if !same { fail(rep, "stale-file", format!("after the session file r{} holds {:?} but executing the same tasks from scratch leaves {:?}", res, post[res], r.state[res]), step_no); break 'steps; }
        }
        if bottom_up {
          pending.clear();
          // C03 probe: requiring every known task executes nothing and returns from-scratch outputs
          let known: Vec<u32> = KNOWN.with(|k| k.borrow().iter().copied().collect());
          EXECS.with(|e| e.borrow_mut().clear());
          let pre2 = world.read();
          let res2 = catch(|| { let mut s = pie.new_session(); known.iter().map(|t| s.require(&task(*t))).collect::<Vec<u32>>() });
          match res2 {
            Err(m) => { fail(rep, "probe-abort", format!("requiring every known task after a bottom-up build aborted: {}", m), step_no); break 'steps; }
            Ok(o2) => {
              let ex: Vec<u32> = EXECS.with(|e| e.borrow().clone());
              if !ex.is_empty() && which == "C03" { fail(rep, "stale-after-bottom-up", format!("after a bottom-up build told about every changed file, requiring the known tasks executed {:?}", ex), step_no); break 'steps; }
              let mut r2 = RefRun::new(&prog, &pre2);
              for (k, t) in known.iter().enumerate() { if r2.eval(*t) != Some(o2[k]) && ex.is_empty() { fail(rep, "probe-stale-output", format!("after a bottom-up build F{} yields {} but from scratch {:?}", t, o2[k], r2.memo[*t as usize]), step_no); break 'steps; } }
              rep.add("file_probes", 1);
            }
          }
        } else {
          let known: BTreeSet<u32> = KNOWN.with(|k| k.borrow().clone());
          if known.iter().all(|k| roots.contains(k)) { pending.clear(); }
        }
        if !executed.is_empty() { rep.nontrivial(case.digest() ^ (i as u64) ^ 0xF11E); }
      }
    }
  }
  let _ = step_no;
  let _ = fs::remove_dir_all(&dir);
}
