//! Small self-contained utilities: PRNG, hashing, JSON writer, panic capture, parallel map.

use std::cell::RefCell;
use std::fmt::Write as _;
use std::panic::{catch_unwind, AssertUnwindSafe};

// ---------------------------------------------------------------------------------------------------------------
// PRNG (splitmix64 seeding xoshiro256**), deterministic across platforms.
// ---------------------------------------------------------------------------------------------------------------

#[derive(Clone, Debug)]
pub struct Rng { s: [u64; 4] }

#[inline]
pub fn splitmix(x: &mut u64) -> u64 {
  *x = x.wrapping_add(0x9E3779B97F4A7C15);
  let mut z = *x;
  z = (z ^ (z >> 30)).wrapping_mul(0xBF58476D1CE4E5B9);
  z = (z ^ (z >> 27)).wrapping_mul(0x94D049BB133111EB);
  z ^ (z >> 31)
}

impl Rng {
  pub fn new(seed: u64) -> Self {
    let mut x = seed;
    let s = [splitmix(&mut x), splitmix(&mut x), splitmix(&mut x), splitmix(&mut x)];
    Rng { s }
  }
  /// Derives an independent generator for (seed, stream).
  pub fn derive(seed: u64, stream: u64) -> Self {
    let mut x = seed ^ stream.wrapping_mul(0xD6E8FEB86659FD93);
    let a = splitmix(&mut x);
    Rng::new(a ^ stream.rotate_left(17))
  }
  #[inline]
  pub fn next_u64(&mut self) -> u64 {
    let s = &mut self.s;
    let result = s[1].wrapping_mul(5).rotate_left(7).wrapping_mul(9);
    let t = s[1] << 17;
    s[2] ^= s[0];
    s[3] ^= s[1];
    s[1] ^= s[2];
    s[0] ^= s[3];
    s[2] ^= t;
    s[3] = s[3].rotate_left(45);
    result
  }
  /// Uniform in `0..n` (n > 0).
  #[inline]
  pub fn below(&mut self, n: usize) -> usize {
    debug_assert!(n > 0);
    (self.next_u64() % (n as u64)) as usize
  }
  /// Uniform in `lo..=hi`.
  #[inline]
  pub fn range(&mut self, lo: usize, hi: usize) -> usize { lo + self.below(hi - lo + 1) }
  /// True with probability `num/den`.
  #[inline]
  pub fn chance(&mut self, num: usize, den: usize) -> bool { self.below(den) < num }
  pub fn pick<'a, T>(&mut self, xs: &'a [T]) -> &'a T { &xs[self.below(xs.len())] }
  pub fn shuffle<T>(&mut self, xs: &mut [T]) {
    for i in (1..xs.len()).rev() {
      let j = self.below(i + 1);
      xs.swap(i, j);
    }
  }
}

// ---------------------------------------------------------------------------------------------------------------
// Hashing: FNV-1a 64 over bytes / words, and a 32-bit mixer used by task scripts.
// ---------------------------------------------------------------------------------------------------------------

#[derive(Clone, Copy, Debug)]
pub struct Fnv(pub u64);
impl Default for Fnv { fn default() -> Self { Fnv(0xcbf29ce484222325) } }
impl Fnv {
  #[inline]
  pub fn byte(&mut self, b: u8) { self.0 = (self.0 ^ b as u64).wrapping_mul(0x100000001b3); }
  #[inline]
  pub fn bytes(&mut self, bs: &[u8]) { for b in bs { self.byte(*b); } }
  #[inline]
  pub fn u64(&mut self, x: u64) { self.bytes(&x.to_le_bytes()); }
  #[inline]
  pub fn str(&mut self, s: &str) { self.bytes(s.as_bytes()); self.byte(0xff); }
}

#[inline]
pub fn mix32(acc: u32, x: u32) -> u32 {
  let mut h = acc ^ x.wrapping_mul(0x9E3779B1);
  h = h.rotate_left(13).wrapping_mul(0x85EBCA6B);
  h ^= h >> 15;
  h = h.wrapping_mul(0xC2B2AE35);
  h ^ (h >> 13)
}

// ---------------------------------------------------------------------------------------------------------------
// JSON writer (values only; no parser needed: the `check` script post-processes with python).
// ---------------------------------------------------------------------------------------------------------------

#[derive(Clone, Debug)]
pub enum J {
  Null,
  B(bool),
  I(i64),
  F(f64),
  S(String),
  A(Vec<J>),
  O(Vec<(String, J)>),
}

impl J {
  pub fn s(x: impl Into<String>) -> J { J::S(x.into()) }
  pub fn obj() -> J { J::O(Vec::new()) }
  pub fn set(&mut self, k: &str, v: J) -> &mut Self {
    if let J::O(kv) = self {
      if let Some(e) = kv.iter_mut().find(|(kk, _)| kk == k) { e.1 = v; } else { kv.push((k.to_string(), v)); }
    }
    self
  }
  pub fn with(mut self, k: &str, v: J) -> Self { self.set(k, v); self }
  pub fn render(&self) -> String { let mut s = String::new(); self.write(&mut s); s }
  fn write(&self, out: &mut String) {
    match self {
      J::Null => out.push_str("null"),
      J::B(b) => out.push_str(if *b { "true" } else { "false" }),
      J::I(i) => { let _ = write!(out, "{}", i); }
      J::F(f) => { if f.is_finite() { let _ = write!(out, "{:.3}", f); } else { out.push_str("null"); } }
      J::S(s) => write_str(out, s),
      J::A(xs) => {
        out.push('[');
        for (i, x) in xs.iter().enumerate() { if i > 0 { out.push(','); } x.write(out); }
        out.push(']');
      }
      J::O(kv) => {
        out.push('{');
        for (i, (k, v)) in kv.iter().enumerate() { if i > 0 { out.push(','); } write_str(out, k); out.push(':'); v.write(out); }
        out.push('}');
      }
    }
  }
}
impl From<i64> for J { fn from(x: i64) -> J { J::I(x) } }
impl From<u64> for J { fn from(x: u64) -> J { J::I(x as i64) } }
impl From<usize> for J { fn from(x: usize) -> J { J::I(x as i64) } }
impl From<u32> for J { fn from(x: u32) -> J { J::I(x as i64) } }
impl From<bool> for J { fn from(x: bool) -> J { J::B(x) } }
impl From<&str> for J { fn from(x: &str) -> J { J::S(x.to_string()) } }
impl From<String> for J { fn from(x: String) -> J { J::S(x) } }

fn write_str(out: &mut String, s: &str) {
  out.push('"');
  for c in s.chars() {
    match c {
      '"' => out.push_str("\\\""),
      '\\' => out.push_str("\\\\"),
      '\n' => out.push_str("\\n"),
      '\r' => out.push_str("\\r"),
      '\t' => out.push_str("\\t"),
      c if (c as u32) < 0x20 => { let _ = write!(out, "\\u{:04x}", c as u32); }
      c => out.push(c),
    }
  }
  out.push('"');
}

// ---------------------------------------------------------------------------------------------------------------
// Panic capture: a silent hook that remembers the last message per thread.
// ---------------------------------------------------------------------------------------------------------------

thread_local! {
  static LAST_PANIC: RefCell<Option<String>> = const { RefCell::new(None) };
}

pub fn install_quiet_panic_hook() {
  std::panic::set_hook(Box::new(|info| {
    let msg = if let Some(s) = info.payload().downcast_ref::<&str>() { s.to_string() }
      else if let Some(s) = info.payload().downcast_ref::<String>() { s.clone() }
      else { "<non-string panic payload>".to_string() };
    let loc = info.location().map(|l| format!("{}:{}", l.file(), l.line())).unwrap_or_default();
    LAST_PANIC.with(|p| *p.borrow_mut() = Some(format!("{} @ {}", msg, loc)));
    if std::env::var_os("PV_LOUD_PANICS").is_some() {
      eprintln!("panic: {} @ {}", msg, loc);
    }
  }));
}

/// Runs `f`, catching a panic; returns `Err(message @ file:line)` on panic.
pub fn catch<R>(f: impl FnOnce() -> R) -> Result<R, String> {
  LAST_PANIC.with(|p| *p.borrow_mut() = None);
  match catch_unwind(AssertUnwindSafe(f)) {
    Ok(r) => Ok(r),
    Err(payload) => {
      let from_hook = LAST_PANIC.with(|p| p.borrow_mut().take());
      Err(from_hook.unwrap_or_else(|| {
        if let Some(s) = payload.downcast_ref::<&str>() { s.to_string() }
        else if let Some(s) = payload.downcast_ref::<String>() { s.clone() }
        else { "<non-string panic payload>".to_string() }
      }))
    }
  }
}

// ---------------------------------------------------------------------------------------------------------------
// Parallel driver: runs `work(case_index)` for indices `0..n` on `threads` workers with big stacks; results are merged
// by the caller-supplied `merge`. Each worker owns its accumulator, so nothing is shared but the index counter.
// ---------------------------------------------------------------------------------------------------------------

pub fn parallel<A: Send + 'static>(
  n: u64,
  threads: usize,
  stack_mib: usize,
  new_acc: impl Fn() -> A + Sync,
  work: impl Fn(u64, &mut A) -> bool + Sync, // returns false to request a global stop
) -> Vec<A> {
  use std::sync::atomic::{AtomicBool, AtomicU64, Ordering};
  let next = AtomicU64::new(0);
  let stop = AtomicBool::new(false);
  let threads = threads.max(1);
  std::thread::scope(|scope| {
    let mut handles = Vec::new();
    for _ in 0..threads {
      let next = &next;
      let stop = &stop;
      let work = &work;
      let new_acc = &new_acc;
      let h = std::thread::Builder::new().stack_size(stack_mib << 20).spawn_scoped(scope, move || {
        let mut acc = new_acc();
        loop {
          if stop.load(Ordering::Relaxed) { break; }
          let i = next.fetch_add(1, Ordering::Relaxed);
          if i >= n { break; }
          if !work(i, &mut acc) { stop.store(true, Ordering::Relaxed); }
        }
        acc
      }).expect("spawn worker");
      handles.push(h);
    }
    handles.into_iter().map(|h| h.join().expect("worker panicked outside catch")).collect()
  })
}

pub fn env_u64(name: &str, default: u64) -> u64 {
  std::env::var(name).ok().and_then(|s| s.trim().parse::<u64>().ok()).unwrap_or(default)
}

pub fn threads() -> usize {
  let n = std::thread::available_parallelism().map(|n| n.get()).unwrap_or(4);
  env_u64("PV_THREADS", n as u64) as usize
}
