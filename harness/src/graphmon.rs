//! C10 / C11: differential monitor of `pie_graph::DAG` against a naive adjacency-list model.
//!
//! Every public mutator is compared with the model's return value; after every operation all public queries are
//! compared with the model for all nodes / ordered node pairs (including stale handles of removed nodes), and the
//! topological ranks are checked to be a bijection onto 1..=n that respects every edge.

use std::cmp::Ordering;
use std::collections::{BTreeMap, BTreeSet, HashMap};

use pie_graph::{Error, Node, DAG};

use crate::report::{Alarm, Report};
use crate::util::{Fnv, Rng, J};

#[derive(Clone, Copy, Debug, PartialEq, Eq)]
pub enum GOp {
  AddNode,
  AddEdge(usize, usize),
  RemoveEdge(usize, usize),
  RemoveOut(usize),
  RemoveNode(usize),
}

impl GOp {
  pub fn render(&self) -> String {
    match self {
      GOp::AddNode => "add_node".into(),
      GOp::AddEdge(a, b) => format!("add_edge({},{})", a, b),
      GOp::RemoveEdge(a, b) => format!("remove_edge({},{})", a, b),
      GOp::RemoveOut(a) => format!("remove_outgoing_edges_of_node({})", a),
      GOp::RemoveNode(a) => format!("remove_node({})", a),
    }
  }
}

/// Naive model. Slots are never reused; a removed node keeps its slot (its handle is then stale).
#[derive(Clone, Debug, Default)]
pub struct Model {
  pub alive: Vec<bool>,
  pub children: Vec<Vec<usize>>,
  pub parents: Vec<Vec<usize>>,
  pub data: BTreeMap<(usize, usize), u32>,
}

impl Model {
  fn add_node(&mut self) -> usize {
    self.alive.push(true);
    self.children.push(Vec::new());
    self.parents.push(Vec::new());
    self.alive.len() - 1
  }
  fn ok(&self, a: usize) -> bool { a < self.alive.len() && self.alive[a] }
  /// Plain DFS reachability over one or more edges.
  pub fn reaches(&self, a: usize, b: usize) -> bool {
    if !self.ok(a) || !self.ok(b) { return false; }
    let mut seen = vec![false; self.alive.len()];
    let mut stack = vec![a];
    while let Some(x) = stack.pop() {
      for &c in &self.children[x] {
        if c == b { return true; }
        if !seen[c] { seen[c] = true; stack.push(c); }
      }
    }
    false
  }
  pub fn reachable_set(&self, a: usize) -> BTreeSet<usize> {
    let mut out = BTreeSet::new();
    let mut stack = vec![a];
    while let Some(x) = stack.pop() {
      for &c in &self.children[x] { if out.insert(c) { stack.push(c); } }
    }
    out
  }
  fn remove_edge(&mut self, a: usize, b: usize) -> Option<u32> {
    if !self.ok(a) || !self.ok(b) { return None; }
    if !self.children[a].contains(&b) { return None; }
    self.children[a].retain(|&x| x != b);
    self.parents[b].retain(|&x| x != a);
    self.data.remove(&(a, b))
  }
}

/// Result of a mutator, normalised so that the real DAG and the model can be compared.
#[derive(Clone, Debug, PartialEq, Eq)]
pub enum Ret {
  Node,
  Added(bool),
  Cycle,
  Missing,
  Removed(Option<u32>),
  RemovedOut(Option<Vec<(usize, u32)>>),
  RemovedNode(bool),
}

pub struct Sut {
  pub dag: DAG<u32, u32>,
  pub handles: Vec<Node>,
  pub index: HashMap<Node, usize>,
}

impl Sut {
  pub fn new() -> Self { Sut { dag: DAG::new(), handles: Vec::new(), index: HashMap::new() } }
  pub fn apply(&mut self, op: GOp, serial: u32) -> Ret {
    match op {
      GOp::AddNode => {
        let id = self.handles.len();
        let n = self.dag.add_node(id as u32);
        self.handles.push(n);
        self.index.insert(n, id);
        Ret::Node
      }
      GOp::AddEdge(a, b) => match self.dag.add_edge(self.handles[a], self.handles[b], serial) {
        Ok(x) => Ret::Added(x),
        Err(Error::CycleDetected) => Ret::Cycle,
        Err(Error::NodeMissing) => Ret::Missing,
      },
      GOp::RemoveEdge(a, b) => Ret::Removed(self.dag.remove_edge(self.handles[a], self.handles[b])),
      GOp::RemoveOut(a) => {
        let r = self.dag.remove_outgoing_edges_of_node(self.handles[a]);
        Ret::RemovedOut(r.map(|v| v.into_iter().map(|(n, d)| (*self.index.get(&n).unwrap_or(&usize::MAX), d)).collect()))
      }
      GOp::RemoveNode(a) => Ret::RemovedNode(self.dag.remove_node(self.handles[a])),
    }
  }
}

pub fn model_apply(m: &mut Model, op: GOp, serial: u32) -> Ret {
  match op {
    GOp::AddNode => { m.add_node(); Ret::Node }
    GOp::AddEdge(a, b) => {
      if !m.ok(a) || !m.ok(b) { return Ret::Missing; }
      if a == b || m.reaches(b, a) { return Ret::Cycle; }
      if m.children[a].contains(&b) { return Ret::Added(false); }
      m.children[a].push(b);
      m.parents[b].push(a);
      m.data.insert((a, b), serial);
      Ret::Added(true)
    }
    GOp::RemoveEdge(a, b) => Ret::Removed(m.remove_edge(a, b)),
    GOp::RemoveOut(a) => {
      if !m.ok(a) || m.children[a].is_empty() { return Ret::RemovedOut(None); }
      let cs = std::mem::take(&mut m.children[a]);
      let mut out = Vec::new();
      for c in cs {
        m.parents[c].retain(|&x| x != a);
        if let Some(d) = m.data.remove(&(a, c)) { out.push((c, d)); }
      }
      Ret::RemovedOut(Some(out))
    }
    GOp::RemoveNode(a) => {
      if !m.ok(a) { return Ret::RemovedNode(false); }
      let cs = std::mem::take(&mut m.children[a]);
      for c in cs { m.parents[c].retain(|&x| x != a); m.data.remove(&(a, c)); }
      let ps = std::mem::take(&mut m.parents[a]);
      for p in ps { m.children[p].retain(|&x| x != a); m.data.remove(&(p, a)); }
      m.alive[a] = false;
      Ret::RemovedNode(true)
    }
  }
}

/// Everything observable through the public query API, in a form independent of the actual rank values.
#[derive(Clone, Debug, PartialEq, Eq)]
pub struct Observed {
  pub len: usize,
  pub ranks: Vec<Option<u32>>,                   // per slot
  pub contains_node: Vec<bool>,
  pub node_data: Vec<Option<u32>>,
  pub contains_edge: Vec<bool>,                  // n*n
  pub transitive: Vec<bool>,                     // n*n
  pub edge_data: Vec<Option<u32>>,               // n*n
  pub out_edges: Vec<Vec<(usize, u32)>>,
  pub out_nodes: Vec<Vec<usize>>,
  pub out_data: Vec<Vec<u32>>,
  pub out_node_data: Vec<Vec<u32>>,
  pub in_edges: Vec<Vec<(usize, u32)>>,
  pub in_nodes: Vec<Vec<usize>>,
  pub in_data: Vec<Vec<u32>>,
  pub in_node_data: Vec<Vec<u32>>,
  pub desc_unsorted: Vec<Option<Vec<(u32, usize)>>>,
  pub desc_sorted: Vec<Option<Vec<usize>>>,
  /// The same two iterators for node a, but consumed one item at a time with reachability queries and a second pair
  /// of iterators (over the next node) advanced in between: what an iterator yields must not depend on other calls.
  pub desc_unsorted_lazy: Vec<Option<Vec<usize>>>,
  pub desc_sorted_lazy: Vec<Option<Vec<usize>>>,
}

pub fn observe(s: &Sut) -> Observed {
  let n = s.handles.len();
  let d = &s.dag;
  let idx = |node: &Node| *s.index.get(node).unwrap_or(&usize::MAX);
  let mut ranks = vec![None; n];
  for (r, node) in d.iter_unsorted() {
    let i = idx(&node);
    if i < n { ranks[i] = Some(r); }
  }
  let mut o = Observed {
    len: d.len(),
    ranks,
    contains_node: (0..n).map(|i| d.contains_node(s.handles[i])).collect(),
    node_data: (0..n).map(|i| d.get_node_data(s.handles[i]).copied()).collect(),
    contains_edge: Vec::with_capacity(n * n),
    transitive: Vec::with_capacity(n * n),
    edge_data: Vec::with_capacity(n * n),
    out_edges: Vec::new(), out_nodes: Vec::new(), out_data: Vec::new(), out_node_data: Vec::new(),
    in_edges: Vec::new(), in_nodes: Vec::new(), in_data: Vec::new(), in_node_data: Vec::new(),
    desc_unsorted: Vec::new(), desc_sorted: Vec::new(), desc_unsorted_lazy: Vec::new(), desc_sorted_lazy: Vec::new(),
  };
  for a in 0..n {
    for b in 0..n {
      o.contains_edge.push(d.contains_edge(s.handles[a], s.handles[b]));
      o.transitive.push(d.contains_transitive_edge(s.handles[a], s.handles[b]));
      o.edge_data.push(d.get_edge_data(s.handles[a], s.handles[b]).copied());
    }
    let h = s.handles[a];
    o.out_edges.push(d.get_outgoing_edges(h).map(|(x, e)| (idx(x), *e)).collect());
    o.out_nodes.push(d.get_outgoing_edge_nodes(h).map(|x| idx(x)).collect());
    o.out_data.push(d.get_outgoing_edge_data(h).copied().collect());
    o.out_node_data.push(d.get_outgoing_edge_node_data(h).copied().collect());
    o.in_edges.push(d.get_incoming_edges(h).map(|(x, e)| (idx(x), *e)).collect());
    o.in_nodes.push(d.get_incoming_edge_nodes(h).map(|x| idx(x)).collect());
    o.in_data.push(d.get_incoming_edge_data(h).copied().collect());
    o.in_node_data.push(d.get_incoming_edge_node_data(h).copied().collect());
    o.desc_unsorted.push(d.descendants_unsorted(h).ok().map(|it| it.map(|(r, x)| (r, idx(&x))).collect()));
    o.desc_sorted.push(d.descendants(h).ok().map(|it| it.map(|x| idx(&x)).collect()));
    // interleaved consumption
    let other = s.handles[(a + 1) % n];
    match (d.descendants_unsorted(h), d.descendants(h)) {
      (Ok(mut iu), Ok(mut is)) => {
        let (mut ou, mut os) = (Vec::new(), Vec::new());
        let mut ju = d.descendants_unsorted(other).ok();
        let mut js = d.descendants(other).ok();
        let mut k = 0usize;
        loop {
          let x = iu.next();
          let _ = d.contains_transitive_edge(other, h);
          if let Some(j) = ju.as_mut() { let _ = j.next(); }
          let y = is.next();
          let _ = d.contains_transitive_edge(h, s.handles[(a + k) % n]);
          if let Some(j) = js.as_mut() { let _ = j.next(); }
          if let Some((_, node)) = &x { ou.push(idx(node)); }
          if let Some(node) = &y { os.push(idx(node)); }
          k += 1;
          if (x.is_none() && y.is_none()) || k > 4 * n + 8 { break; }
        }
        o.desc_unsorted_lazy.push(Some(ou));
        o.desc_sorted_lazy.push(Some(os));
      }
      _ => { o.desc_unsorted_lazy.push(None); o.desc_sorted_lazy.push(None); }
    }
  }
  o
}

/// Compares an observation with the model. Returns (property, message) for the first disagreement.
pub fn compare(o: &Observed, m: &Model, s: &Sut) -> Result<(), (&'static str, String)> {
  let n = m.alive.len();
  let live: Vec<usize> = (0..n).filter(|&i| m.alive[i]).collect();
  // ---- C10: ranks form a bijection onto 1..=len and respect every edge.
  if o.len != live.len() { return Err(("C10", format!("len() = {} but {} nodes are alive", o.len, live.len()))); }
  let mut seen = BTreeSet::new();
  for i in 0..n {
    match (m.alive[i], o.ranks[i]) {
      (true, None) => return Err(("C10", format!("live node {} missing from iter_unsorted", i))),
      (false, Some(_)) => return Err(("C10", format!("removed node {} still listed by iter_unsorted", i))),
      (true, Some(r)) => {
        if r < 1 || r as usize > live.len() { return Err(("C10", format!("rank {} of node {} outside 1..={}", r, i, live.len()))); }
        if !seen.insert(r) { return Err(("C10", format!("rank {} assigned twice (node {})", r, i))); }
      }
      (false, None) => {}
    }
  }
  for (&(a, b), _) in m.data.iter() {
    let (ra, rb) = (o.ranks[a].unwrap(), o.ranks[b].unwrap());
    if ra >= rb { return Err(("C10", format!("edge {}->{} but rank({})={} >= rank({})={}", a, b, a, ra, b, rb))); }
  }
  // ---- C11: every query.
  for i in 0..n {
    if o.contains_node[i] != m.alive[i] { return Err(("C11", format!("contains_node({}) = {}", i, o.contains_node[i]))); }
    let nd = if m.alive[i] { Some(i as u32) } else { None };
    if o.node_data[i] != nd { return Err(("C11", format!("get_node_data({}) = {:?}", i, o.node_data[i]))); }
  }
  for a in 0..n {
    for b in 0..n {
      let k = a * n + b;
      let has = m.ok(a) && m.ok(b) && m.data.contains_key(&(a, b));
      if o.contains_edge[k] != has { return Err(("C11", format!("contains_edge({},{}) = {} but model says {}", a, b, o.contains_edge[k], has))); }
      let tr = a != b && m.reaches(a, b);
      if o.transitive[k] != tr { return Err(("C11", format!("contains_transitive_edge({},{}) = {} but model says {}", a, b, o.transitive[k], tr))); }
      let ed = m.data.get(&(a, b)).copied();
      if o.edge_data[k] != ed { return Err(("C11", format!("get_edge_data({},{}) = {:?} but model says {:?}", a, b, o.edge_data[k], ed))); }
      if m.ok(a) && m.ok(b) {
        let want = o.ranks[a].cmp(&o.ranks[b]);
        let got: Ordering = s.dag.topo_cmp(s.handles[a], s.handles[b]);
        if got != want { return Err(("C11", format!("topo_cmp({},{}) = {:?} but ranks say {:?}", a, b, got, want))); }
      }
    }
  }
  for a in 0..n {
    let (mc, mp): (Vec<usize>, Vec<usize>) = if m.alive[a] { (m.children[a].clone(), m.parents[a].clone()) } else { (vec![], vec![]) };
    let oe: Vec<(usize, u32)> = mc.iter().map(|&c| (c, m.data[&(a, c)])).collect();
    let ie: Vec<(usize, u32)> = mp.iter().map(|&p| (p, m.data[&(p, a)])).collect();
    if o.out_edges[a] != oe { return Err(("C11", format!("get_outgoing_edges({}) = {:?} but model (first-insertion order) says {:?}", a, o.out_edges[a], oe))); }
    if o.out_nodes[a] != mc { return Err(("C11", format!("get_outgoing_edge_nodes({}) = {:?} but model says {:?}", a, o.out_nodes[a], mc))); }
    if o.out_data[a] != oe.iter().map(|x| x.1).collect::<Vec<_>>() { return Err(("C11", format!("get_outgoing_edge_data({}) = {:?}", a, o.out_data[a]))); }
    if o.out_node_data[a] != mc.iter().map(|&c| c as u32).collect::<Vec<_>>() { return Err(("C11", format!("get_outgoing_edge_node_data({}) = {:?}", a, o.out_node_data[a]))); }
    if o.in_edges[a] != ie { return Err(("C11", format!("get_incoming_edges({}) = {:?} but model (first-insertion order) says {:?}", a, o.in_edges[a], ie))); }
    if o.in_nodes[a] != mp { return Err(("C11", format!("get_incoming_edge_nodes({}) = {:?} but model says {:?}", a, o.in_nodes[a], mp))); }
    if o.in_data[a] != ie.iter().map(|x| x.1).collect::<Vec<_>>() { return Err(("C11", format!("get_incoming_edge_data({}) = {:?}", a, o.in_data[a]))); }
    if o.in_node_data[a] != mp.iter().map(|&c| c as u32).collect::<Vec<_>>() { return Err(("C11", format!("get_incoming_edge_node_data({}) = {:?}", a, o.in_node_data[a]))); }
    match (&o.desc_unsorted[a], &o.desc_sorted[a], m.alive[a]) {
      (None, None, false) => {}
      (Some(du), Some(ds), true) => {
        let want = m.reachable_set(a);
        let got: BTreeSet<usize> = du.iter().map(|x| x.1).collect();
        if got.len() != du.len() { return Err(("C11", format!("descendants_unsorted({}) yields a node twice: {:?}", a, du))); }
        if got != want { return Err(("C11", format!("descendants_unsorted({}) = {:?} but reachable set is {:?}", a, got, want))); }
        for (r, x) in du { if Some(*r) != o.ranks[*x] { return Err(("C11", format!("descendants_unsorted({}) reports rank {} for node {} whose rank is {:?}", a, r, x, o.ranks[*x]))); } }
        let got2: BTreeSet<usize> = ds.iter().copied().collect();
        if got2.len() != ds.len() { return Err(("C11", format!("descendants({}) yields a node twice: {:?}", a, ds))); }
        if got2 != want { return Err(("C11", format!("descendants({}) = {:?} but reachable set is {:?}", a, ds, want))); }
        for w in ds.windows(2) {
          if o.ranks[w[0]] >= o.ranks[w[1]] { return Err(("C11", format!("descendants({}) not in ascending rank: {:?}", a, ds))); }
        }
        match (&o.desc_unsorted_lazy[a], &o.desc_sorted_lazy[a]) {
          (Some(lu), Some(ls)) => {
            let gl: BTreeSet<usize> = lu.iter().copied().collect();
            if gl.len() != lu.len() || gl != want { return Err(("C11", format!("descendants_unsorted({}) consumed one item at a time, with reachability queries and another iterator advanced in between, yields {:?} but the reachable set is {:?}", a, lu, want))); }
            if ls != ds { return Err(("C11", format!("descendants({}) consumed one item at a time, with reachability queries and another iterator advanced in between, yields {:?} instead of {:?}", a, ls, ds))); }
          }
          _ => return Err(("C11", format!("descendants*({}) could not be created a second time", a))),
        }
      }
      _ => return Err(("C11", format!("descendants*({}) Ok/Err does not match liveness {}", a, m.alive[a]))),
    }
  }
  Ok(())
}

#[derive(Default)]
pub struct SeqStats { pub reorders: u64, pub cycles: u64, pub reinserts: u64, pub removals: u64, pub stale: u64, pub ops: u64, pub max_moved: u64 }

/// Runs one sequence; `check_every` = compare all queries after every op (else only after the last one).
pub fn run_sequence(init_nodes: usize, ops: &[GOp], check_every: bool, stats: &mut SeqStats) -> Result<(), (&'static str, String, usize)> {
  let mut sut = Sut::new();
  let mut m = Model::default();
  for _ in 0..init_nodes { sut.apply(GOp::AddNode, 0); m.add_node(); }
  let mut serial = 1u32;
  for (step, op) in ops.iter().enumerate() {
    stats.ops += 1;
    serial += 1;
    let is_add_edge = matches!(op, GOp::AddEdge(..));
    let before = if is_add_edge { Some(observe(&sut)) } else { None };
    // the same reachability question is asked immediately before and immediately after the operation (an answer must
    // not survive a change of the graph); the pair prefers a node the operation touches
    let probe = {
      let n = sut.handles.len();
      let touched = match op { GOp::RemoveNode(x) | GOp::RemoveOut(x) => Some(*x), GOp::RemoveEdge(a, _) | GOp::AddEdge(a, _) => Some(*a), _ => None };
      if n >= 3 {
        // a parent of the touched node to a child of it, if it has both; otherwise a step-dependent pair
        let via = touched.filter(|t| *t < n && !m.parents[*t].is_empty() && !m.children[*t].is_empty());
        Some(match via { Some(t) if step % 2 == 0 => (m.parents[t][step % m.parents[t].len()], m.children[t][step % m.children[t].len()]), _ => ((step * 7 + 1) % n, (step * 13 + 3) % n) })
      } else { None }
    };
    if let Some((x, y)) = probe { let _ = sut.dag.contains_transitive_edge(sut.handles[x], sut.handles[y]); }
    let want = model_apply(&mut m, *op, serial);
    let got = sut.apply(*op, serial);
    if let Some((x, y)) = probe {
      let q = sut.dag.contains_transitive_edge(sut.handles[x], sut.handles[y]);
      let wq = x != y && m.reaches(x, y);
      if q != wq && got == want { return Err(("C11", format!("contains_transitive_edge({},{}) asked right before and right after {}: the second answer is {} but the edge set says {}", x, y, op.render(), q, wq), step)); }
    }
    match (&want, op) {
      (Ret::Cycle, _) => stats.cycles += 1,
      (Ret::Added(false), _) => stats.reinserts += 1,
      (Ret::Missing, _) | (Ret::RemovedNode(false), _) => stats.stale += 1,
      (Ret::Removed(Some(_)), _) | (Ret::RemovedOut(Some(_)), _) | (Ret::RemovedNode(true), _) => stats.removals += 1,
      _ => {}
    }
    if got != want {
      // Which property? The cycle verdict and `NodeMissing` belong to C10; what removals return belongs to C11;
      // Ok(true)/Ok(false) (is the edge present?) belongs to C11 unless a cycle verdict is involved.
      let prop = match (&want, &got) {
        (Ret::Cycle, _) | (_, Ret::Cycle) | (Ret::Missing, _) | (_, Ret::Missing) => "C10",
        _ => "C11",
      };
      return Err((prop, format!("{} returned {:?} but the model says {:?}", op.render(), got, want), step));
    }
    let need_after = check_every || step + 1 == ops.len() || before.is_some();
    if !need_after { continue; }
    let after = observe(&sut);
    if let Some(before) = before {
      match want {
        Ret::Added(true) => { if before.ranks != after.ranks { stats.reorders += 1; } }
        Ret::Cycle | Ret::Missing => {
          if before != after {
            return Err(("C10", format!("rejected {} changed the observable state: {}", op.render(), first_diff(&before, &after)), step));
          }
        }
        Ret::Added(false) => {
          if before != after {
            return Err(("C11", format!("re-inserting existing edge with {} changed the observable state: {}", op.render(), first_diff(&before, &after)), step));
          }
        }
        _ => {}
      }
    }
    if check_every || step + 1 == ops.len() {
      if let Err((p, msg)) = compare(&after, &m, &sut) {
        return Err((p, format!("after {}: {}", op.render(), msg), step));
      }
    }
  }
  Ok(())
}

/// Large graphs (40-120 nodes): a random DAG is built in creation order (no reordering yet), then late / fresh nodes
/// get edges to early nodes with many descendants, so that single insertions have to reorder dozens of nodes. Return
/// values are compared at every step; the full observation is compared with the model after each of the final
/// `tail` operations only (an observation costs O(n^2) reachability queries).
pub fn large_reorder_sequence(rng: &mut Rng) -> (usize, Vec<GOp>, usize) {
  let n = rng.range(40, 120);
  let mut ops = Vec::new();
  let mut m = Model::default();
  for _ in 0..n { m.add_node(); }
  let mut serial = 1u32;
  let fan = rng.range(1, 3);
  for j in 1..n {
    // every node gets 1..=fan parents among the earlier nodes, biased to recent ones (long chains) or to node 0..3 (wide)
    for _ in 0..rng.range(1, fan) {
      let i = if rng.chance(1, 3) { rng.below(4.min(j)) } else { j - 1 - rng.below(3.min(j)) };
      if i != j { ops.push(GOp::AddEdge(i, j)); serial += 1; model_apply(&mut m, GOp::AddEdge(i, j), serial); }
    }
  }
  let build = ops.len();
  let mut slots = n;
  for _ in 0..rng.range(4, 10) {
    match rng.below(3) {
      0 => {
        // a fresh node (ranked last) requires an early node with a large subtree
        ops.push(GOp::AddNode); slots += 1; serial += 1; model_apply(&mut m, GOp::AddNode, serial);
        let dst = rng.below(6);
        ops.push(GOp::AddEdge(slots - 1, dst)); serial += 1; model_apply(&mut m, GOp::AddEdge(slots - 1, dst), serial);
      }
      1 => {
        // a late node requires an early node (cycle attempt or two-sided reorder)
        let (a, b) = (n - 1 - rng.below(n / 2), rng.below(n / 3));
        ops.push(GOp::AddEdge(a, b)); serial += 1; model_apply(&mut m, GOp::AddEdge(a, b), serial);
      }
      _ => {
        let (a, b) = (rng.below(slots), rng.below(slots));
        ops.push(GOp::AddEdge(a, b)); serial += 1; model_apply(&mut m, GOp::AddEdge(a, b), serial);
      }
    }
  }
  let tail = ops.len() - build;
  (n, ops, tail)
}

pub fn run_sequence_tail_checked(init_nodes: usize, ops: &[GOp], tail: usize, stats: &mut SeqStats) -> Result<(), (&'static str, String, usize)> {
  let mut sut = Sut::new();
  let mut m = Model::default();
  for _ in 0..init_nodes { sut.apply(GOp::AddNode, 0); m.add_node(); }
  let mut serial = 1u32;
  let mut ranks_before: Vec<Option<u32>> = Vec::new();
  for (step, op) in ops.iter().enumerate() {
    stats.ops += 1;
    serial += 1;
    let in_tail = step + tail >= ops.len();
    if in_tail { ranks_before = observe_ranks(&sut); }
    let want = model_apply(&mut m, *op, serial);
    let got = sut.apply(*op, serial);
    if let Ret::Cycle = want { stats.cycles += 1; }
    if got != want {
      let prop = match (&want, &got) { (Ret::Cycle, _) | (_, Ret::Cycle) | (Ret::Missing, _) | (_, Ret::Missing) => "C10", _ => "C11" };
      return Err((prop, format!("{} returned {:?} but the model says {:?}", op.render(), got, want), step));
    }
    if in_tail {
      let after = observe(&sut);
      if matches!(want, Ret::Added(true)) {
        let moved = ranks_before.iter().zip(after.ranks.iter()).filter(|(a, b)| a != b).count();
        if moved > 0 { stats.reorders += 1; }
        stats.max_moved = stats.max_moved.max(moved as u64);
      }
      if let Err((p, msg)) = compare(&after, &m, &sut) { return Err((p, format!("after {}: {}", op.render(), msg), step)); }
    }
  }
  Ok(())
}

fn observe_ranks(s: &Sut) -> Vec<Option<u32>> {
  let n = s.handles.len();
  let mut ranks = vec![None; n];
  for (r, node) in s.dag.iter_unsorted() { if let Some(&i) = s.index.get(&node) { if i < n { ranks[i] = Some(r); } } }
  ranks
}

fn first_diff(a: &Observed, b: &Observed) -> String {
  macro_rules! d { ($f:ident) => { if a.$f != b.$f { return format!("{} before={:?} after={:?}", stringify!($f), a.$f, b.$f); } } }
  d!(len); d!(ranks); d!(contains_node); d!(node_data); d!(contains_edge); d!(transitive); d!(edge_data);
  d!(out_edges); d!(out_nodes); d!(out_data); d!(out_node_data); d!(in_edges); d!(in_nodes); d!(in_data); d!(in_node_data);
  d!(desc_unsorted); d!(desc_sorted);
  "?".into()
}

/// The op alphabet over `k` slots (no add_node; used for exhaustive enumeration from `k` initial nodes).
pub fn alphabet(k: usize, with_add_node: bool) -> Vec<GOp> {
  let mut v = Vec::new();
  for a in 0..k { for b in 0..k { v.push(GOp::AddEdge(a, b)); } }
  for a in 0..k { for b in 0..k { if a != b { v.push(GOp::RemoveEdge(a, b)); } } }
  for a in 0..k { v.push(GOp::RemoveOut(a)); }
  for a in 0..k { v.push(GOp::RemoveNode(a)); }
  if with_add_node { v.push(GOp::AddNode); }
  v
}

pub fn random_sequence(rng: &mut Rng, max_nodes: usize, len: usize) -> (usize, Vec<GOp>) {
  let init = rng.range(2, 5.min(max_nodes));
  let mut slots = init;
  let mut ops = Vec::with_capacity(len);
  // A shadow model steers the generator towards interesting operations (back edges, re-insertions, cycles).
  let mut m = Model::default();
  for _ in 0..init { m.add_node(); }
  let mut serial = 0;
  // Per-sequence style: how often to remove, how dense.
  let p_remove = rng.range(5, 30);
  let p_addnode = rng.range(3, 12);
  for _ in 0..len {
    let roll = rng.below(100);
    let op = if roll < p_addnode && slots < max_nodes {
      GOp::AddNode
    } else if roll < p_addnode + p_remove {
      match rng.below(10) {
        0 => GOp::RemoveNode(rng.below(slots)),
        1 | 2 => GOp::RemoveOut(rng.below(slots)),
        _ => {
          // prefer an existing edge
          if !m.data.is_empty() && rng.chance(4, 5) {
            let k = rng.below(m.data.len());
            let (&(a, b), _) = m.data.iter().nth(k).unwrap();
            GOp::RemoveEdge(a, b)
          } else {
            GOp::RemoveEdge(rng.below(slots), rng.below(slots))
          }
        }
      }
    } else {
      let style = rng.below(10);
      if style < 2 && !m.data.is_empty() {
        // re-insert an existing edge
        let k = rng.below(m.data.len());
        let (&(a, b), _) = m.data.iter().nth(k).unwrap();
        GOp::AddEdge(a, b)
      } else if style < 4 && !m.data.is_empty() {
        // try to close a cycle: pick an edge a->b and add b'->a for some descendant-ish node
        let k = rng.below(m.data.len());
        let (&(a, b), _) = m.data.iter().nth(k).unwrap();
        let reach: Vec<usize> = m.reachable_set(a).into_iter().collect();
        let from = if reach.is_empty() { b } else { *rng.pick(&reach) };
        GOp::AddEdge(from, a)
      } else {
        // random edge, biased towards "later slot -> earlier slot" (forces reordering)
        let a = rng.below(slots);
        let b = rng.below(slots);
        if rng.chance(2, 3) && a < b { GOp::AddEdge(b, a) } else { GOp::AddEdge(a, b) }
      }
    };
    serial += 1;
    if matches!(op, GOp::AddNode) { slots += 1; }
    model_apply(&mut m, op, serial);
    ops.push(op);
  }
  (init, ops)
}

fn digest(init: usize, ops: &[GOp]) -> u64 {
  let mut h = Fnv::default();
  h.u64(init as u64);
  for op in ops { h.str(&op.render()); }
  h.0
}

fn case_json(mode: &str, init: usize, ops: &[GOp]) -> J {
  J::obj().with("mode", J::s(mode)).with("initial_nodes", J::from(init))
    .with("ops", J::A(ops.iter().map(|o| J::s(o.render())).collect()))
}

fn record(rep: &mut Report, which: &'static str, mode: &str, seed: u64, case: u64, init: usize, ops: &[GOp]) {
  let mut st = SeqStats::default();
  // a panic inside the DAG (e.g. an unwrap on a node that a stale scratch buffer still refers to) is a wrong answer
  let res = match crate::util::catch(|| {
    let mut st2 = SeqStats::default();
    let r = if let Some(tail) = mode.strip_prefix("large:").and_then(|t| t.parse::<usize>().ok()) { run_sequence_tail_checked(init, ops, tail, &mut st2) } else { run_sequence(init, ops, mode != "exhaustive", &mut st2) };
    (r, st2)
  }) {
    Ok((r, st2)) => { st = st2; r }
    Err(msg) => Err((which, format!("the DAG panicked: {}", msg), ops.len().saturating_sub(1))),
  };
  rep.evaluations += 1;
  rep.add("ops", st.ops);
  rep.add("add_edge_reorders", st.reorders);
  rep.max("max_nodes_moved_by_one_add_edge", st.max_moved);
  rep.add("cycle_rejections", st.cycles);
  rep.add("reinsertions_of_existing_edge", st.reinserts);
  rep.add("removals_with_effect", st.removals);
  rep.add("ops_on_stale_handles", st.stale);
  let nontrivial = if which == "C10" { st.reorders > 0 || st.cycles > 0 } else { st.removals > 0 || st.reinserts > 0 || st.reorders > 0 };
  if nontrivial { rep.nontrivial(digest(init, ops)); }
  rep.sample(|| case_json(mode, init, ops));
  if let Err((prop, msg, step)) = res {
    if prop == which {
      let sig = if msg.contains("re-inserting existing edge") { "reinsert-existing-edge-changes-order".to_string() } else { format!("graph:{}", msg.split(|c: char| c == '(' || c == ' ').next().unwrap_or("?")) };
      rep.alarm(Alarm {
        property: which,
        signature: sig,
        summary: format!("step {}: {}", step, msg),
        case: J::obj().with("sub", J::s("graph")).with("mode", J::s(mode)).with("seed", J::from(seed)).with("case", J::from(case)),
        detail: case_json(mode, init, &ops[..=step]).with("failed_step", J::from(step)).with("message", J::s(msg)),
      });
    } else {
      rep.count(&format!("alarms_for_other_property_{}", prop));
    }
  }
}

/// Decodes case `idx` of the exhaustive family (k initial nodes, all sequences of length exactly `len`).
fn exhaustive_case(alpha: &[GOp], len: usize, mut idx: u64) -> Vec<GOp> {
  let mut ops = Vec::with_capacity(len);
  for _ in 0..len { ops.push(alpha[(idx % alpha.len() as u64) as usize]); idx /= alpha.len() as u64; }
  ops
}

pub struct GraphPlan { pub exhaustive: Vec<(usize, usize)>, pub random: u64, pub max_nodes: usize, pub len_lo: usize, pub len_hi: usize }

pub fn plan(tier: &str) -> GraphPlan {
  match tier {
    "thorough" => GraphPlan { exhaustive: vec![(3, 1), (3, 2), (3, 3), (3, 4), (3, 5), (4, 1), (4, 2), (4, 3), (4, 4)], random: 400_000, max_nodes: 14, len_lo: 60, len_hi: 300 },
    "miri" => GraphPlan { exhaustive: vec![], random: 1, max_nodes: 7, len_lo: 60, len_hi: 60 },
    _ => GraphPlan { exhaustive: vec![(3, 1), (3, 2), (3, 3), (3, 4), (4, 1), (4, 2), (4, 3)], random: 40_000, max_nodes: 14, len_lo: 60, len_hi: 200 },
  }
}

pub fn run(which: &'static str, tier: &str, seed: u64, only_case: Option<(String, u64)>) -> Report {
  let p = plan(tier);
  let threads = crate::util::threads();
  let mut total = Report::new();
  // Replay of a single case.
  if let Some((mode, case)) = only_case {
    if mode == "exhaustive" {
      // case encodes (family index << 40) | idx
      let fam = (case >> 40) as usize;
      let (k, len) = plan("thorough").exhaustive[fam];
      let alpha = alphabet(k, false);
      let ops = exhaustive_case(&alpha, len, case & ((1 << 40) - 1));
      record(&mut total, which, "exhaustive", seed, case, k, &ops);
    } else if mode.starts_with("large") {
      let mut rng = Rng::derive(seed ^ 0x1A26E, case);
      let (init, ops, tail) = large_reorder_sequence(&mut rng);
      record(&mut total, which, &format!("large:{}", tail), seed, case, init, &ops);
    } else {
      let mut rng = Rng::derive(seed, case);
      let len = rng.range(p.len_lo, p.len_hi);
      let (init, ops) = random_sequence(&mut rng, p.max_nodes, len);
      record(&mut total, which, "random", seed, case, init, &ops);
    }
    return total;
  }
  let thorough_fams = plan("thorough").exhaustive;
  for (k, len) in p.exhaustive.iter().copied() {
    let fam = thorough_fams.iter().position(|x| *x == (k, len)).unwrap() as u64;
    let alpha = alphabet(k, false);
    let n = (alpha.len() as u64).pow(len as u32);
    let parts = crate::util::parallel(n, threads, 16, Report::new, |i, rep: &mut Report| {
      let ops = exhaustive_case(&alpha, len, i);
      record(rep, which, "exhaustive", seed, (fam << 40) | i, k, &ops);
      rep.alarm_total < 50
    });
    for r in parts { total.merge(r); }
    total.add("exhaustive_sequences", n);
    total.seen("exhaustive_families", format!("{} nodes x all sequences of length {} over {} ops", k, len, alpha.len()));
  }
  let parts = crate::util::parallel(p.random, threads, 16, Report::new, |i, rep: &mut Report| {
    let mut rng = Rng::derive(seed, i);
    let len = rng.range(p.len_lo, p.len_hi);
    let (init, ops) = random_sequence(&mut rng, p.max_nodes, len);
    record(rep, which, "random", seed, i, init, &ops);
    rep.alarm_total < 50
  });
  for r in parts { total.merge(r); }
  total.add("random_sequences", p.random);
  // large graphs: single insertions that reorder dozens of nodes
  if tier != "miri" {
    let n_large: u64 = if tier == "thorough" { 6000 } else { 300 };
    let parts = crate::util::parallel(n_large, threads, 4, Report::new, |i, rep: &mut Report| {
      let mut rng = Rng::derive(seed ^ 0x1A26E, i);
      let (init, ops, tail) = large_reorder_sequence(&mut rng);
      record(rep, which, &format!("large:{}", tail), seed, i, init, &ops);
      rep.alarm_total < 20
    });
    for r in parts { total.merge(r); }
    total.add("large_graph_sequences", n_large);
    total.floor("an insertion that moved more than 32 nodes", total.get("max_nodes_moved_by_one_add_edge") > 32);
  }
  total.rule = "operation sequences over add_edge/remove_edge/remove_outgoing_edges_of_node/remove_node (+add_node in random ones): every sequence of the listed exhaustive families (k initial nodes, exact length L) plus seeded random sequences biased to back edges, re-insertions and cycle attempts; after every operation (exhaustive: after every add_edge and after the last operation; every proper prefix is itself a member of a shorter family) all public queries for all nodes and ordered node pairs incl. stale handles are compared with a naive adjacency-list model; plus large graphs (40-120 nodes built in creation order, then fresh or late nodes pointed at early nodes with large subtrees, so that one insertion reorders dozens of nodes; all queries compared after each of those insertions). distinct = digest of the op sequence; non-trivial = (C10) at least one rank-changing add_edge or one cycle rejection, (C11) at least one effective removal, re-insertion or reorder".into();
  total.exhaustive = false;
  total.floor("at least one rank-changing add_edge", total.get("add_edge_reorders") > 0);
  total.floor("at least one cycle rejection", total.get("cycle_rejections") > 0);
  total.floor("at least one re-insertion of an existing edge", total.get("reinsertions_of_existing_edge") > 0);
  total.floor("at least one effective removal", total.get("removals_with_effect") > 0);
  total.floor("at least one operation on a stale handle", total.get("ops_on_stale_handles") > 0);
  total
}
