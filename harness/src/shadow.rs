//! `Shadow`: what pie ought to hold for every task, reconstructed only from task-side and checker-side events; and
//! the conversion of the guarded `verif_dump()` hook into comparable form.

use std::collections::{BTreeMap, BTreeSet};

use pie::verif::{EdgeKind, NodeKind, StoreDump};

use crate::cell::{Chk, OChk, OSt, Res, St};
use crate::log::Ev;
use crate::prog::Prog;

#[derive(Clone, Copy, Debug, PartialEq, Eq, PartialOrd, Ord, Hash)]
pub enum DKind { Reserved, Require, Read, Write }

#[derive(Clone, Debug, PartialEq, Eq)]
pub struct Decl {
  pub kind: DKind,
  /// Task id for Reserved/Require, resource id for Read/Write.
  pub target: u32,
  /// Debug rendering of the checker value the task passed (`Chk(..)` / `OChk(..)`), empty for Reserved.
  pub chk: String,
  pub stamp: i32,
}

impl Decl {
  pub fn is_task_target(&self) -> bool { matches!(self.kind, DKind::Reserved | DKind::Require) }
  pub fn render(&self) -> String {
    format!("{:?}->{}{} {} stamp={}", self.kind, if self.is_task_target() { "T" } else { "R" }, self.target, self.chk, self.stamp)
  }
}

#[derive(Clone, Copy, Debug, PartialEq, Eq)]
pub enum Status { Never, Running, Completed, Partial }

#[derive(Clone, Debug)]
pub struct TaskShadow {
  pub status: Status,
  /// Raw declarations of the latest (possibly unfinished) execution, in order.
  pub decls: Vec<Decl>,
  pub output: Option<u32>,
}

impl TaskShadow {
  /// The raw declarations collapsed to one per target node, the way a store with one edge per (task, target) has to
  /// hold them: position = first declaration of that target. For resources the first declaration's data stays; for
  /// requires the data of the last completed require of that target is what the edge carries. `ambiguous` lists
  /// targets that were declared more than once with different checkers (finding K2 territory).
  pub fn collapsed(&self) -> (Vec<Decl>, Vec<(bool, u32)>) {
    let mut out: Vec<Decl> = Vec::new();
    let mut ambiguous = Vec::new();
    for d in &self.decls {
      let is_task = d.is_task_target();
      if let Some(e) = out.iter_mut().find(|e| e.is_task_target() == is_task && e.target == d.target) {
        if is_task {
          if d.kind == DKind::Require {
            if e.kind == DKind::Require && e.chk != d.chk && !ambiguous.contains(&(true, d.target)) { ambiguous.push((true, d.target)); }
            *e = d.clone();
          }
          // a Reserved re-declaration leaves an existing Require edge untouched
        } else if (e.chk != d.chk || e.kind != d.kind) && !ambiguous.contains(&(false, d.target)) {
          ambiguous.push((false, d.target));
        }
      } else {
        out.push(d.clone());
      }
    }
    (out, ambiguous)
  }
}

#[derive(Clone, Debug)]
pub struct Shadow {
  pub tasks: Vec<TaskShadow>,
  /// Tasks pie has a node for (required at least once).
  pub known: BTreeSet<u32>,
  pending_stamp: Vec<Option<i32>>,
  pending_chk: Vec<String>,
  last_req_call: Option<(u32, u32)>,
}

impl Shadow {
  pub fn new(n_tasks: usize) -> Self {
    Shadow {
      tasks: vec![TaskShadow { status: Status::Never, decls: Vec::new(), output: None }; n_tasks],
      known: BTreeSet::new(),
      pending_stamp: vec![None; n_tasks],
      pending_chk: vec![String::new(); n_tasks],
      last_req_call: None,
    }
  }

  pub fn apply(&mut self, ev: &Ev) {
    match ev {
      Ev::RootCall { task } => { self.known.insert(*task); }
      Ev::ExecStart { task } => {
        let t = &mut self.tasks[*task as usize];
        t.status = Status::Running;
        t.decls.clear();
        t.output = None;
      }
      Ev::ExecEnd { task, out } => {
        let t = &mut self.tasks[*task as usize];
        t.status = Status::Completed;
        t.output = Some(*out);
      }
      Ev::Abort { msg } => {
        // A require rejected as cyclic never got its reserved edge (the graph rolls the insertion back).
        if crate::hist::abort_kind(msg) == "cycle" {
          if let Some((task, target)) = self.last_req_call {
            let d = &mut self.tasks[task as usize].decls;
            if matches!(d.last(), Some(x) if x.kind == DKind::Reserved && x.target == target) { d.pop(); }
          }
        }
        for t in self.tasks.iter_mut() { if t.status == Status::Running { t.status = Status::Partial; } }
      }
      Ev::ReqCall { task, target, .. } => {
        self.known.insert(*target);
        self.last_req_call = Some((*task, *target));
        self.tasks[*task as usize].decls.push(Decl { kind: DKind::Reserved, target: *target, chk: String::new(), stamp: 0 });
      }
      Ev::OStamp { owner, ok, target, stamp, .. } => {
        // The stamp of the require that is about to return to `owner`.
        let chk = format!("{:?}", OChk { kind: *ok, owner: *owner, target: *target });
        if let Some(d) = self.tasks[*owner as usize].decls.iter_mut().rev().find(|d| d.kind == DKind::Reserved && d.target == *target) {
          d.kind = DKind::Require;
          d.chk = chk;
          d.stamp = *stamp;
        }
      }
      Ev::ReadCall { task, kind, .. } | Ev::WriteCall { task, kind, .. } => {
        self.pending_chk[*task as usize] = format!("{:?}", Chk { kind: *kind, owner: *task, fail_stamp: false });
        self.pending_stamp[*task as usize] = None;
      }
      Ev::StampReader { owner, stamp, .. } | Ev::StampWriter { owner, stamp, .. } | Ev::Stamp { owner, stamp, .. } => {
        self.pending_stamp[*owner as usize] = *stamp;
      }
      Ev::ReadRet { task, res, reader: Some(_), .. } => {
        if let Some(s) = self.pending_stamp[*task as usize].take() {
          let chk = self.pending_chk[*task as usize].clone();
          self.tasks[*task as usize].decls.push(Decl { kind: DKind::Read, target: *res, chk, stamp: s });
        }
      }
      Ev::WriteRet { task, res, err: None } => {
        if let Some(s) = self.pending_stamp[*task as usize].take() {
          let chk = self.pending_chk[*task as usize].clone();
          self.tasks[*task as usize].decls.push(Decl { kind: DKind::Write, target: *res, chk, stamp: s });
        }
      }
      _ => {}
    }
  }

  /// Recorded writer of a resource according to the shadow.
  pub fn writers_of(&self, res: u32) -> Vec<u32> {
    (0..self.tasks.len() as u32).filter(|&t| self.tasks[t as usize].decls.iter().any(|d| d.kind == DKind::Write && d.target == res)).collect()
  }
  pub fn readers_of(&self, res: u32) -> Vec<u32> {
    (0..self.tasks.len() as u32).filter(|&t| self.tasks[t as usize].decls.iter().any(|d| d.kind == DKind::Read && d.target == res)).collect()
  }
  /// Transitive reachability over recorded or in-progress (reserved) requires, one or more edges.
  pub fn reaches(&self, a: u32, b: u32) -> bool {
    let mut seen = vec![false; self.tasks.len()];
    let mut stack = vec![a];
    while let Some(x) = stack.pop() {
      for d in &self.tasks[x as usize].decls {
        if d.is_task_target() {
          if d.target == b { return true; }
          if !seen[d.target as usize] { seen[d.target as usize] = true; stack.push(d.target); }
        }
      }
    }
    false
  }
}

// ---------------------------------------------------------------------------------------------------------------
// Dump conversion
// ---------------------------------------------------------------------------------------------------------------

#[derive(Clone, Debug, Default)]
pub struct DumpTask { pub rank: u32, pub output: Option<u32>, pub out: Vec<Decl>, pub incoming_requirers: Vec<u32> }
#[derive(Clone, Debug, Default)]
pub struct DumpRes { pub rank: u32, pub incoming: Vec<(u32, DKind)> }

#[derive(Clone, Debug, Default)]
pub struct Dump {
  pub tasks: BTreeMap<u32, DumpTask>,
  pub res: BTreeMap<u32, DumpRes>,
  pub n_nodes: usize,
  pub n_edges: usize,
  /// Structural problems found while converting (unknown node payloads, asymmetric edges, rank violations).
  pub problems: Vec<String>,
  /// No dump could be taken at this point (the pie session was still open); nothing to compare.
  pub absent: bool,
}

fn dkind(k: EdgeKind) -> DKind {
  match k { EdgeKind::ReservedRequire => DKind::Reserved, EdgeKind::Require => DKind::Require, EdgeKind::Read => DKind::Read, EdgeKind::Write => DKind::Write }
}

#[derive(Clone, Copy, PartialEq, Eq, Debug)]
enum NodeId { T(u32), R(u32), Unknown }

pub fn convert(d: &StoreDump) -> Dump {
  let mut out = Dump::default();
  out.n_nodes = d.nodes.len();
  let ids: Vec<NodeId> = d.nodes.iter().map(|n| match &n.kind {
    NodeKind::Task { task, .. } => crate::prog::prog_of_key(task.as_ref().as_any()).map(|p| NodeId::T(p.id)).unwrap_or(NodeId::Unknown),
    NodeKind::Resource(r) => r.as_ref().as_any().downcast_ref::<Res>().map(|r| NodeId::R(r.0)).unwrap_or(NodeId::Unknown),
  }).collect();
  // ranks: bijection onto 1..=n
  let mut seen = BTreeSet::new();
  for (i, n) in d.nodes.iter().enumerate() {
    if n.rank < 1 || n.rank as usize > d.nodes.len() || !seen.insert(n.rank) { out.problems.push(format!("rank {} of node {:?} not part of a bijection onto 1..={}", n.rank, ids[i], d.nodes.len())); }
  }
  for (i, n) in d.nodes.iter().enumerate() {
    match (&n.kind, ids[i]) {
      (NodeKind::Task { output, .. }, NodeId::T(id)) => {
        let output = output.as_ref().and_then(|o| o.as_ref().as_any().downcast_ref::<u32>().copied());
        let mut decls = Vec::new();
        for e in &n.outgoing {
          out.n_edges += 1;
          let Some(o) = e.other else { out.problems.push(format!("T{}: outgoing edge to a node outside the dump", id)); continue; };
          if d.nodes[o].rank <= n.rank { out.problems.push(format!("edge T{} -> {:?} violates rank order ({} >= {})", id, ids[o], n.rank, d.nodes[o].rank)); }
          // symmetric?
          if !d.nodes[o].incoming.iter().any(|ie| ie.other == Some(i) && ie.kind == e.kind) { out.problems.push(format!("edge T{} -> {:?} missing from the target's incoming list", id, ids[o])); }
          let kind = dkind(e.kind);
          let target = match ids[o] { NodeId::T(t) => t, NodeId::R(r) => r, NodeId::Unknown => u32::MAX };
          match (kind, ids[o]) {
            (DKind::Reserved | DKind::Require, NodeId::T(_)) | (DKind::Read | DKind::Write, NodeId::R(_)) => {}
            _ => out.problems.push(format!("edge T{} -> {:?} has kind {:?}", id, ids[o], kind)),
          }
          // the dependency's own target key must be the node it points to
          if let Some(t) = &e.target {
            let ok = match ids[o] {
              NodeId::T(t2) => crate::prog::prog_of_key(t.as_ref().as_any()).map_or(false, |p| p.id == t2),
              NodeId::R(r2) => t.as_ref().as_any().downcast_ref::<Res>().map_or(false, |r| r.0 == r2),
              NodeId::Unknown => false,
            };
            if !ok { out.problems.push(format!("edge T{} -> {:?}: dependency names a different target {:?}", id, ids[o], t)); }
          }
          let chk = match &e.checker {
            None => String::new(),
            Some(c) => {
              let any = c.as_ref().as_any();
              if let Some(c) = any.downcast_ref::<Chk>() { format!("{:?}", c) }
              else if let Some(c) = any.downcast_ref::<crate::cell::ChkU>() { format!("{:?}", c) }
              else if let Some(c) = any.downcast_ref::<OChk>() { format!("{:?}", c) }
              else { format!("?{:?}", c) }
            }
          };
          let stamp = match &e.stamp {
            None => 0,
            Some(s) => {
              let any = s.as_ref().as_any();
              if let Some(s) = any.downcast_ref::<St>() { s.0 } else if let Some(s) = any.downcast_ref::<OSt>() { s.0 } else if any.downcast_ref::<()>().is_some() { 0 } else { i32::MIN }
            }
          };
          decls.push(Decl { kind, target, chk, stamp });
        }
        let incoming_requirers = n.incoming.iter().filter_map(|e| e.other.and_then(|o| if let NodeId::T(t) = ids[o] { Some(t) } else { None })).collect();
        if out.tasks.insert(id, DumpTask { rank: n.rank, output, out: decls, incoming_requirers }).is_some() {
          out.problems.push(format!("two nodes for task T{}", id));
        }
      }
      (NodeKind::Resource(_), NodeId::R(id)) => {
        if !n.outgoing.is_empty() { out.problems.push(format!("resource R{} has outgoing edges", id)); }
        let mut incoming = Vec::new();
        for e in &n.incoming {
          let Some(o) = e.other else { out.problems.push(format!("R{}: incoming edge from a node outside the dump", id)); continue; };
          if let NodeId::T(t) = ids[o] { incoming.push((t, dkind(e.kind))); } else { out.problems.push(format!("R{}: incoming edge from a non-task", id)); }
          if !d.nodes[o].outgoing.iter().any(|oe| oe.other == Some(i) && oe.kind == e.kind) { out.problems.push(format!("edge {:?} -> R{} missing from the source's outgoing list", ids[o], id)); }
        }
        if out.res.insert(id, DumpRes { rank: n.rank, incoming }).is_some() {
          out.problems.push(format!("two nodes for resource R{}", id));
        }
      }
      _ => out.problems.push(format!("node {} has an unknown payload", i)),
    }
  }
  // key maps must point at the right nodes
  for (k, i) in &d.task_map {
    let id = crate::prog::prog_of_key(k.as_ref().as_any()).map(|p| p.id);
    match (id, i) {
      (Some(id), Some(i)) if ids[*i] == NodeId::T(id) => {}
      _ => out.problems.push(format!("task map entry {:?} -> {:?} is wrong", k, i)),
    }
  }
  for (k, i) in &d.resource_map {
    let id = k.as_ref().as_any().downcast_ref::<Res>().map(|p| p.0);
    match (id, i) {
      (Some(id), Some(i)) if ids[*i] == NodeId::R(id) => {}
      _ => out.problems.push(format!("resource map entry {:?} -> {:?} is wrong", k, i)),
    }
  }
  if d.task_map.len() != out.tasks.len() { out.problems.push(format!("{} task map entries but {} task nodes", d.task_map.len(), out.tasks.len())); }
  if d.resource_map.len() != out.res.len() { out.problems.push(format!("{} resource map entries but {} resource nodes", d.resource_map.len(), out.res.len())); }
  out
}

pub enum DumpDiff {
  Same,
  /// Differences explained by several declarations with different checkers on one target (finding K2).
  MultiChecker(String),
  Different(String),
}

/// Compares the store dump with the shadow (C08). Returns the first difference.
pub fn compare(sh: &Shadow, d: &Dump) -> DumpDiff {
  if let Some(p) = d.problems.first() { return DumpDiff::Different(format!("structural problem in the store: {}", p)); }
  for t in 0..sh.tasks.len() as u32 {
    let ts = &sh.tasks[t as usize];
    let known = sh.known.contains(&t);
    let Some(dt) = d.tasks.get(&t) else {
      if known { return DumpDiff::Different(format!("task T{} was required but has no node in the store", t)); }
      continue;
    };
    if !known { return DumpDiff::Different(format!("store has a node for T{} which was never required", t)); }
    let want_out = if ts.status == Status::Completed { ts.output } else { None };
    if dt.output != want_out { return DumpDiff::Different(format!("T{}: stored output {:?} but latest execution {:?} ({:?})", t, dt.output, want_out, ts.status)); }
    let (want, ambiguous) = ts.collapsed();
    if dt.out != want {
      let render = |v: &Vec<Decl>| v.iter().map(|d| d.render()).collect::<Vec<_>>().join("; ");
      return DumpDiff::Different(format!("T{}: store holds [{}] but the latest execution declared [{}]", t, render(&dt.out), render(&want)));
    }
    if !ambiguous.is_empty() {
      // The store agrees with the "one edge per target" collapse, but the task declared more than that.
      let (is_task, target) = ambiguous[0];
      let all: Vec<String> = ts.decls.iter().filter(|d| d.is_task_target() == is_task && d.target == target).map(|d| d.render()).collect();
      let kept: Vec<String> = dt.out.iter().filter(|d| d.is_task_target() == is_task && d.target == target).map(|d| d.render()).collect();
      return DumpDiff::MultiChecker(format!("T{} declared [{}] on one target; the store keeps only [{}]", t, all.join("; "), kept.join("; ")));
    }
  }
  DumpDiff::Same
}
