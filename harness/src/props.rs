//! Per-property assembly: which workload classes, how many cases, the coverage floors and the rule text.

use crate::report::Report;
use crate::util::{self, Rng};
use crate::wf::{self, ClassPlan as CP};
use crate::{c17x, Args};

const CLASS_DOC: &str = "Cases are (program, initial state, history) triples: seeded random well-formed task programs (2-6 scripted tasks, a quarter up to 10, a tenth up to 16, with value-dependent require/read/write structure over <=6 integer cell resources, checker kinds Exact/Parity/Exists/Always on reads and writes and Exact/Parity/Always on requires) driven through 6-12 builds with 0-3 external changes in between (the `soak` classes: 120-200 builds on one instance with up to 16 tasks), plus a curated library of hostile shapes. ";

/// Adds the exhaustive small-scope leg (all histories of the given lengths over the curated shapes).
fn with_exhaustive(mut r: Report, which: &'static str, t: &str, s: u64, replay: &Option<(String, u64)>) -> Report {
  let lens: &[usize] = if t == "thorough" { &[1, 2, 3, 4, 5] } else { &[1, 2, 3, 4] };
  match replay {
    Some((c, n)) if c == "exhaustive" => wf::run_exhaustive(which, t, s, lens, Some(*n)),
    Some(_) => r,
    None => { r.merge(wf::run_exhaustive(which, t, s, lens, None)); r }
  }
}

const EXH_DOC: &str = " Exhaustive small-scope leg: for each of 6 curated hostile shapes (read-generated-twice, diamond with cut-off, conditional require of a new task, conditional writer with coarse reader, dynamic require target, chain of generated resources with declared writes) EVERY history of 1..4 (thorough: 1..5) steps over {set any resource to absent/0/1/2, top-down require of any single task, bottom-up build, bottom-up build + require} is run between an initial build and a final build of everything, with all monitors on.";

pub fn run(args: &Args) -> Report {
  let replay = match (args.get("sub"), args.get_u64("case")) { (Some(m), Some(c)) => Some((m.to_string(), c)), _ => None };
  let replay_is_none = replay.is_none();
  if matches!(&replay, Some((c, _)) if c == "builtin-checkers") { return crate::c12::builtin_checker_builds(if args.property == "C03" { "C03" } else { "C01" }, args.seed); }
  if matches!(&replay, Some((c, _)) if c == "file-writes") { return crate::fwrite::run(if args.property == "C06" { "C06" } else { "C05" }, args.seed); }
  let scale: u64 = (if args.tier == "thorough" { 600 } else { 20 }) * util::env_u64("PV_SCALE", 1);
  let t = args.tier.as_str();
  let s = args.seed;
  // Miri shards: a handful of cases of the same classes, single-threaded, no exhaustive / file / crash-point legs
  if t == "miri" {
    let mut r = match args.property.as_str() {
      "C01" => wf::run_classes("C01", t, s, &[CP { name: "td-mixed", n: 6 }], None),
      "C03" => wf::run_classes("C03", t, s, &[CP { name: "pure-mixed", n: 6 }], None),
      "C19" => wf::run_classes("C19", t, s, &[CP { name: "td-inj-anyp", n: 6 }], None),
      _ => Report::new(),
    };
    r.rule = "Miri shard".into();
    return r;
  }
  let mut r = match args.property.as_str() {
    "C01" => {
      let mut r = with_exhaustive(wf::run_classes("C01", t, s, &[CP { name: "td-exact", n: 4000 * scale }, CP { name: "td-mixed", n: 6000 * scale }, CP { name: "td-soak-any", n: 15 * scale }, CP { name: "td-fc-mixed", n: 2500 * scale }], replay.clone()), "C01", t, s, &replay);
      r.rule = format!("{}Class: top-down-only histories. Monitor: every value returned by Session::require and, after the session, every resource content is compared with the from-scratch interpreter Ref run on the state the session started from (thorough: also a fresh Pie). distinct = digest of the case (program, initial state, history); non-trivial = a case with at least one session in which at least one previously completed task was re-executed AND at least one was reused after validation.", CLASS_DOC);
      match &replay { Some((c, n)) if c == "files" => { r = wf::run_files("C01", s, 0, Some(*n)); } Some(_) => {} None => r.merge(wf::run_files("C01", s, 150 * scale, None)) }
      if replay_is_none { r.merge(crate::c12::builtin_checker_builds("C01", s)); }
      r.rule.push_str(" Built-in output checkers: a requirer whose output is exactly what its checker (Equals / OkEquals / ErrEquals / Result / AlwaysConsistent) observes of a Result output, for all 8 x 8 transitions of that output. File-backed slice: the same generated programs over pie's real PathBuf resource on a temporary directory with the real HashChecker / ExistsChecker / ModifiedChecker (modification times set explicitly and strictly increasing) and EqualsChecker / AlwaysConsistent, outputs and file contents compared with Ref.");
      r.floor("outputs compared with Ref", r.get("outputs_compared_with_ref") > 1000);
      r.floor("re-executions and reuses both observed", r.get("re_executions") > 100 && r.get("reuses_after_validation") > 100);
      r
    }
    "C02" => {
      let mut r = with_exhaustive(wf::run_classes("C02", t, s, &[CP { name: "td-exact", n: 5000 * scale }, CP { name: "td-mixed", n: 5000 * scale }, CP { name: "td-fc-exact", n: 2500 * scale }], replay.clone()), "C02", t, s, &replay);
      r.rule = format!("{}Class: top-down-only histories, each session followed by an identical repeated session. Monitors: at most one execution per task per session; every re-execution justified by an inconsistent/failing verdict of one of the task's own recorded dependencies in this session; per owner, the checker-side check sequence is a prefix of the declaration order ending at the first inconsistency; repeated session executes nothing; exact-checker programs execute a subset of what Ref executes. distinct/non-trivial as for C01.", CLASS_DOC);
      r.floor("idempotence probes ran", r.get("idempotence_probes") > 1000);
      r.floor("subset clause exercised", r.get("subset_clause_sessions") > 100);
      r.floor("re-executions and reuses both observed", r.get("re_executions") > 100 && r.get("reuses_after_validation") > 100);
      r
    }
    "C03" => {
      let mut r = with_exhaustive(wf::run_classes("C03", t, s, &[CP { name: "pure-exact", n: 3000 * scale }, CP { name: "pure-mixed", n: 4000 * scale }, CP { name: "mixed-any", n: 4000 * scale }, CP { name: "pure-soak-any", n: 15 * scale }, CP { name: "pure-fc-any", n: 2500 * scale }], replay.clone()), "C03", t, s, &replay);
      r.rule = format!("{}Classes: pure histories (every batch of external changes is reported to a bottom-up build before any partial top-down build) and mixed histories. Monitor: after every bottom-up build a probe session requires every known task in shuffled order: nothing may execute, outputs and resources must equal Ref, no abort; requires issued after the update in the same session count as well. In mixed histories an execution in the probe must be explained by the K1 classifier (producer last executed by a partial top-down build while changes were pending) or it is a violation; pure histories have no suppression. non-trivial = a distinct case with a bottom-up build that re-executed a completed task.", CLASS_DOC);
      match &replay { Some((c, n)) if c == "files" => { r = wf::run_files("C03", s, 0, Some(*n)); } Some(_) => {} None => r.merge(wf::run_files("C03", s, 150 * scale, None)) }
      if replay_is_none { r.merge(crate::c12::builtin_checker_builds("C03", s)); }
      r.rule.push_str(" Built-in output checkers: the same 5 x 64 transitions as in C01, brought up to date by a bottom-up build. File-backed slice: the same generated programs over pie's real PathBuf resource and real file checkers, bottom-up builds scheduled with the changed paths, followed by the same probe.");
      r.floor("probes ran", r.get("c03_probes") > 1000);
      r.floor("bottom-up builds executed tasks", r.get("bottom_up_executions") > 500);
      r.floor("queue length >= 4 observed", r.get("max_bottom_up_queue") >= 4);
      r
    }
    "C04" => {
      let mut r = with_exhaustive(wf::run_classes("C04", t, s, &[CP { name: "pure-exact", n: 5000 * scale }, CP { name: "pure-mixed", n: 5000 * scale }, CP { name: "pure-soak-any", n: 15 * scale }], replay.clone()), "C04", t, s, &replay);
      r.rule = format!("{}Class: pure histories. Monitor over each bottom-up build: at most one execution per task; every executed task is new or was reported inconsistent (checker-side verdict, cross-checked with Tracker::schedule_task); at every execution start no scheduled-and-unexecuted task is (transitively, per the shadow of declared dependencies) required by the starting task; every scheduled task is executed before the build returns. non-trivial = a distinct case with a bottom-up build that re-executed a completed task.", CLASS_DOC);
      r.floor("bottom-up builds executed tasks", r.get("bottom_up_executions") > 500);
      r.floor("queue length >= 4 observed", r.get("max_bottom_up_queue") >= 4);
      r.floor("early cut-offs observed", r.get("bottom_up_early_cutoffs") > 10);
      r.floor("require of a scheduled task during execution observed", r.get("bottom_up_nested_require_scheduled_now") > 0);
      r
    }
    "C05" => {
      let mut r = wf::run_classes("C05", t, s, &[CP { name: "td-inj-hr", n: 3000 * scale }, CP { name: "td-inj-hw", n: 3000 * scale }, CP { name: "mixed-inj-hr", n: 2000 * scale }, CP { name: "mixed-inj-hw", n: 2000 * scale }, CP { name: "td-inj-any", n: 1000 * scale }, CP { name: "td-inj-rw", n: 1500 * scale }, CP { name: "mixed-inj-rw", n: 1000 * scale }], replay);
      r.rule = format!("{}Classes: a read of a generated resource without requiring its generator, or a write to a resource that other tasks read, or (inj-rw) a task that both reads and writes a source while another task reads it without requiring that task, is injected (usually conditional on a source value, so that it becomes live in a later session) at a random task and position of a well-formed program. Monitors: (online, shadow-based) a read that returns while another task has a recorded write and the reader does not reach it over recorded or in-progress requires; a write function entered (or written_to returned) while a recorded reader does not reach the writer; a hidden-dependency abort after the write function already ran; final store structure after a returning build; (Ref-based) the from-scratch interpreter hits a hidden dependency while evaluating a root for which pie returned a value. non-trivial = a distinct case with a session aborted with a hidden-dependency diagnosis.", CLASS_DOC);
      if replay_is_none { r.merge(crate::fwrite::run("C05", s)); r.rule.push_str(" File-backed part: with pie's real PathBuf resource (opening the writer truncates the file) a task reads an existing file and another task that nobody requires then writes it through Context::write (3 x 3 sizes, one or two sessions, content or existence reader): hidden-dependency abort, and the file still holds its old bytes."); }
      r.floor("hidden-dependency aborts observed", r.get("aborts_hidden-dependency") > 50);
      r.floor("injected programs also ran without abort (legal side)", r.get("sessions") > r.get("aborts") * 2);
      r
    }
    "C06" => {
      let mut r = wf::run_classes("C06", t, s, &[CP { name: "td-inj-ov", n: 4000 * scale }, CP { name: "mixed-inj-ov", n: 3000 * scale }, CP { name: "td-inj-any", n: 1000 * scale }, CP { name: "mixed-any", n: 3000 * scale }, CP { name: "pure-any", n: 2000 * scale }], replay);
      r.rule = format!("{}Classes: a second writer of a generated resource is injected (usually value-conditional) into a well-formed program; plus well-formed programs whose writers are re-executed top-down, bottom-up and through nested requires (must never be reported as overlap). Monitors: a write function entered or a written_to returned while the shadow holds a write of the resource by another task; an overlapping-write abort after the write function already ran; at most one writer per resource in the store after a returning build; Ref-based: overlap found from scratch but a value returned. non-trivial = a distinct case with a session aborted with an overlapping-write diagnosis.", CLASS_DOC);
      if replay_is_none { r.merge(crate::fwrite::run("C06", s)); r.rule.push_str(" File-backed part: with pie's real PathBuf resource (opening the writer truncates the file) two different tasks write one file through Context::write (3 x 3 sizes, one or two sessions): overlapping-write abort, and the file still holds the first writer's bytes."); }
      r.floor("overlapping-write aborts observed", r.get("aborts_overlapping-write") > 50);
      r
    }
    "C07" => {
      let mut r = wf::run_classes("C07", t, s, &[CP { name: "td-inj-cy", n: 4000 * scale }, CP { name: "mixed-inj-cy", n: 3000 * scale }, CP { name: "td-inj-any", n: 1000 * scale }], replay);
      r.rule = format!("{}Classes: a require of an earlier (or the same) task is injected (usually value-conditional) at a random task, giving cycles of length 1..n that appear in some session of the history. Monitors: a task starting to execute while it is on the task-side execution stack; a require returning a value for a task on the stack; the step bound (unbounded recursion); Ref-based: the from-scratch interpreter closes a cycle while evaluating a root for which pie returned a value. The store's rank invariant is checked through the dump at every quiescent point. non-trivial = a distinct case with a session aborted with a cyclic-dependency diagnosis.", CLASS_DOC);
      r.floor("cycle aborts observed", r.get("aborts_cycle") > 50);
      r
    }
    "C08" => {
      let mut r = with_exhaustive(wf::run_classes("C08", t, s, &[CP { name: "td-any", n: 3000 * scale }, CP { name: "mixed-any", n: 3000 * scale }, CP { name: "mixed-multi", n: 2000 * scale }, CP { name: "td-inj-anyp", n: 1500 * scale }, CP { name: "mixed-inj-anyp", n: 1000 * scale }], replay.clone()), "C08", t, s, &replay);
      r.rule = format!("{}Classes: top-down and mixed histories over programs whose dependency structure depends on resource values, plus the multi-checker-target mutation, plus histories with aborted builds (injected violations and task panics: what an aborted execution recorded must not survive the task's next completed execution). Monitor: at every quiescent point the guarded store dump (nodes, edges in iteration order, edge kind, checker and stamp objects, outputs) must equal the shadow reconstructed from task-side and checker-side events, collapsed to one edge per target; every check performed must belong to a dependency of the owner's latest execution. Several declarations with different checkers on one target are reported under the K2 signature only. non-trivial = a distinct case with a session that re-executed a completed task (its recorded dependencies were replaced).", CLASS_DOC);
      r.floor("re-executions observed", r.get("re_executions") > 100);
      r
    }
    "C09" => {
      let mut r = with_exhaustive(wf::run_classes("C09", t, s, &[CP { name: "td-mixed", n: 5000 * scale }, CP { name: "pure-mixed", n: 5000 * scale }, CP { name: "td-multi", n: 1500 * scale }], replay.clone()), "C09", t, s, &replay);
      r.rule = format!("{}Classes: programs mixing all checker kinds. Monitor: per context operation the exact user-visible call pattern (Resource::read -> stamp_reader on that very reader before the task's first get; Resource::write -> write function -> stamp_writer seeing the written value; written_to -> stamp at call time; require -> stamp of the returned output); every later check is handed the checker value and stamp of the dependency's creation; inconsistent => owner executed next, all consistent => owner not executed. non-trivial = a distinct case with a session with both consistent and inconsistent verdicts.", CLASS_DOC);
      r.floor("both verdicts observed", r.get("verdicts_consistent") > 100 && r.get("verdicts_inconsistent") > 100);
      r
    }
    "C17" => {
      let mut r = wf::run_classes("C17", t, s, &[CP { name: "mixed-any", n: 4000 * scale }, CP { name: "mixed-faulty", n: 2000 * scale }, CP { name: "mixed-fc", n: 2000 * scale }], replay.clone());
      // second leg: composite + EventTracker
      let n2 = 1500 * scale;
      if replay.as_ref().map_or(true, |(c, _)| c == "composite") {
        let only = replay.as_ref().map(|x| x.1);
        let parts = util::parallel(if only.is_some() { 1 } else { n2 }, util::threads(), 64, Report::new, |i, rep: &mut Report| {
          let i = only.unwrap_or(i);
          let class = if i % 3 == 0 { "mixed-faulty" } else if i % 3 == 1 { "mixed-fc" } else { "mixed-any" };
          let case = wf::make_case(class, s ^ 0xC17C17, i);
          c17x::run_case(&case, rep, s, i, "composite");
          rep.alarm_total < 40
        });
        for p in parts { r.merge(p); }
      }
      r.rule = format!("{}Leg 1: a full-fidelity tracker (all 23 callbacks) writes into the same totally ordered log as the task-side and checker-side observers; monitor = stack discipline of start/end events (failed operations popped when the failure is observed), exact adjacency with task-side execution/require/read/write events, verdicts and stamps reported = those the checkers produced. Leg 2: CompositeTracker(R, CompositeTracker(R, CompositeTracker(EventTracker, R))) - the three recorders (reached through first / second-first / second-second-second children) must see identical streams, EventTracker::slice must equal the projection of the stream since the last build_start with index = position, and every Event/EventTracker query helper is compared with an independent implementation for every event and every task/resource key. non-trivial = a distinct case with a session of >= 12 tracker events (leg 1) / a build with >= 6 recorded events (leg 2).", CLASS_DOC);
      r.floor("all 23 tracker methods observed through the composite", c17x::all_methods_seen(&r) || replay.is_some());
      r.floor("helper comparisons ran", r.get("helper_calls_compared") > 1000 || replay.is_some());
      r
    }
    "C18" => {
      let direct = match &replay { Some((c, n)) if c == "error-types" => Some(crate::c18x::run(t, s, Some(*n))), Some(_) => None, None => Some(crate::c18x::run(t, s, None)) };
      let mut r = if matches!(&replay, Some((c, _)) if c == "error-types") { Report::new() } else { wf::run_classes("C18", t, s, &[CP { name: "td-fc-any", n: 5000 * scale }, CP { name: "pure-fc-any", n: 5000 * scale }], replay) };
      if let Some(d) = direct { r.merge(d); }
      r.rule = format!("{}Fault class: checkers of chosen (owner task, resource) pairs return Err from check while armed (armed/disarmed between builds). Monitor: every injected error (unique serial) appears exactly once in Session::dependency_check_errors of that session and nothing else does; top-down: the owner is executed right after the failing check; bottom-up: the owner is scheduled and executed in that build; no abort; outputs and resources still equal Ref. evaluations = cases; non-trivial = a distinct case with a session in which at least one injected error was observed.", CLASS_DOC);
      r.rule.push_str(" Direct part: a three-level task tree over the map resource whose equality checker fails on demand with errors of four types (a zero-sized unit struct, a message-carrying struct, a one-byte struct, std::io::Error), top-down and bottom-up: no abort, result = from-scratch formula, number of reported errors = number of errors the checkers returned, owner of a failing dependency executed.");
      r.floor("injected checker errors observed", r.nontrivial.len() > 100);
      r
    }
    "C19" => {
      let mut r = Report::new();
      if replay.as_ref().map_or(true, |(c, _)| c != "crash-points") {
        r = wf::run_classes("C19", t, s, &[CP { name: "td-inj-anyp", n: 3000 * scale }, CP { name: "td-inj-up", n: 2000 * scale }, CP { name: "mixed-inj-anyp", n: 1000 * scale }, CP { name: "td-inj-rw", n: 1000 * scale }], replay.clone());
      }
      if replay.as_ref().map_or(true, |(c, _)| c == "crash-points") {
        r.merge(wf::run_crash_points("C19", t, s, 300 * scale, replay.as_ref().map(|x| x.1)));
      }
      r.rule = format!("{}Fault classes: (a) crash-point enumeration - for a well-formed case and a chosen top-down session the whole run is repeated with a panic injected at EVERY task operation k of that session (any nesting depth; in half of the cases entries of other user code - resource open, checker stamp/check calls, write functions - count as operations too; in a third of the cases the crashed session is a bottom-up build and all later builds are top-down); the caught abort is followed by the rest of the history on the same instance; because the programs have static roles, every later session must return exactly the from-scratch result and must not abort; (b) diagnosed violations and user panics injected value-conditionally (cycle, hidden dependency, overlapping write, task panic), followed by further sessions with the cause kept or removed. Monitor: a later build may return (then = Ref), or abort with a diagnosis (judged by C20's classifier), but any other panic - a message starting with BUG, or any panic raised inside /repo - is a violation; the store dump after the abort must equal the shadow including reserved and partial dependencies. evaluations = runs (one per crash point / per case); non-trivial = a distinct run with re-execution of a completed task.", CLASS_DOC);
      r.floor("crash points enumerated", r.get("crash_points") > 500 || replay.is_some());
      r.floor("aborts observed", r.get("aborts") > 500 || replay.is_some());
      r
    }
    "C20" => {
      let mut r = with_exhaustive(wf::run_classes("C20", t, s, &[CP { name: "td-any", n: 2000 * scale }, CP { name: "pure-any", n: 2000 * scale }, CP { name: "mixed-any", n: 1000 * scale }, CP { name: "td-inj-any", n: 3000 * scale }, CP { name: "mixed-inj-any", n: 2000 * scale }], replay.clone()), "C20", t, s, &replay);
      r.rule = format!("{}Well-formed classes: no abort may ever happen. Role-flip classes (value-conditional injected reads/writes/requires, so who writes, reads and requires what depends on the state): when pie aborts with a diagnosis, from-scratch builds of all known tasks in the current state (several evaluation orders) must hit the same kind of violation; otherwise the abort must be explained by the stale-edge classifier (finding K3: the other task named in the message was not executed in this session and, evaluated from scratch now, does not create that edge), else it is a violation. non-trivial = a distinct case with a session that both re-executed and reused tasks; aborts are counted per kind.", CLASS_DOC);
      r.floor("sessions ran", r.get("sessions") > 1000);
      r.floor("aborts confirmed by the from-scratch build observed", r.get("aborts_confirmed_by_from_scratch_build") > 20);
      r
    }
    other => {
      let mut r = Report::new();
      r.inconclusive.push(format!("no monitor for property {}", other));
      r
    }
  };
  if matches!(args.property.as_str(), "C01" | "C02" | "C03" | "C04" | "C08" | "C09" | "C20") { r.rule.push_str(EXH_DOC); }
  if replay_mode(args) { r.inconclusive.clear(); }
  let _ = Rng::new(0);
  r
}

fn replay_mode(args: &Args) -> bool { args.get("case").is_some() }
