//! C12: the five built-in output checkers decide exactly their documented relation. Every ordered pair of a closed
//! domain is enumerated, directly, through the object-safe proxy, and inside real builds; thorough adds random pairs of
//! richer types.

use std::fmt::Debug;
use std::rc::Rc;

use pie::task::{AlwaysConsistent, EqualsChecker, ErrEqualsChecker, OkEqualsChecker, ResultChecker};
use pie::verif::OutputCheckerObj;
use pie::{Context, OutputChecker, Pie, ResourceState, Task};

use crate::cell::{CellStore, Chk, Res};
use crate::log::Kind;
use crate::report::{Alarm, Report};
use crate::util::{self, Rng, J};

type R = Result<i8, i8>;

fn domain() -> Vec<R> { let mut v: Vec<R> = (0..4).map(Ok).collect(); v.extend((0..4).map(Err)); v }

#[derive(Clone, Copy, Debug, PartialEq, Eq, Hash)]
pub enum CK { Equals, OkEquals, ErrEquals, Result, Always }
const ALL: [CK; 5] = [CK::Equals, CK::OkEquals, CK::ErrEquals, CK::Result, CK::Always];

/// The documented relation, written independently of the implementation.
fn relation<T: PartialEq, E: PartialEq>(ck: CK, a: &Result<T, E>, b: &Result<T, E>) -> bool {
  match ck {
    CK::Equals => a == b,
    CK::OkEquals => match (a, b) { (Ok(x), Ok(y)) => x == y, (Err(_), Err(_)) => true, _ => false },
    CK::ErrEquals => match (a, b) { (Err(x), Err(y)) => x == y, (Ok(_), Ok(_)) => true, _ => false },
    CK::Result => a.is_ok() == b.is_ok(),
    CK::Always => true,
  }
}

fn direct<O: Clone + Debug + 'static, C: OutputChecker<O>>(c: &C, a: &O, b: &O) -> (bool, bool) {
  // consistent when checking b against stamp(a); and the same through the object-safe proxy
  let stamp = c.stamp(a);
  let d = c.check(b, &stamp).is_none();
  let obj: &dyn OutputCheckerObj<O> = c;
  let stamp_obj = obj.stamp_obj(a);
  let p = obj.check_obj(b, stamp_obj.as_ref()).is_none();
  (d, p)
}

fn verdicts<T: Clone + Eq + Debug + 'static, E: Clone + Eq + Debug + 'static>(ck: CK, a: &Result<T, E>, b: &Result<T, E>) -> (bool, bool) {
  match ck {
    CK::Equals => direct(&EqualsChecker, a, b),
    CK::OkEquals => direct(&OkEqualsChecker, a, b),
    CK::ErrEquals => direct(&ErrEqualsChecker, a, b),
    CK::Result => direct(&ResultChecker, a, b),
    CK::Always => direct(&AlwaysConsistent, a, b),
  }
}

// ---- inside real builds ------------------------------------------------------------------------------------------

thread_local! { static EXECS: std::cell::RefCell<Vec<&'static str>> = const { std::cell::RefCell::new(Vec::new()) }; }

#[derive(Clone, PartialEq, Eq, Hash, Debug)]
struct Leaf;
impl Task for Leaf {
  type Output = R;
  fn execute<C: Context>(&self, ctx: &mut C) -> R {
    EXECS.with(|e| e.borrow_mut().push("leaf"));
    let v = ctx.read(&Res(0), Chk { kind: Kind::Exact, owner: 0, fail_stamp: false }).ok().and_then(|mut r| r.get()).unwrap_or(0);
    domain()[(v % 8) as usize]
  }
}

#[derive(Clone, PartialEq, Eq, Hash, Debug)]
struct Req(CK);
impl Task for Req {
  type Output = u32;
  fn execute<C: Context>(&self, ctx: &mut C) -> u32 {
    EXECS.with(|e| e.borrow_mut().push("req"));
    let _ = match self.0 {
      CK::Equals => ctx.require(&Leaf, EqualsChecker),
      CK::OkEquals => ctx.require(&Leaf, OkEqualsChecker),
      CK::ErrEquals => ctx.require(&Leaf, ErrEqualsChecker),
      CK::Result => ctx.require(&Leaf, ResultChecker),
      CK::Always => ctx.require(&Leaf, AlwaysConsistent),
    };
    7
  }
}

/// Builds `Req(ck)` with leaf value index `i`, changes it to `j`, rebuilds (top-down or bottom-up): was `Req` re-executed?
fn in_build(ck: CK, i: u32, j: u32, bottom_up: bool) -> bool {
  crate::log::clear();
  let mut pie: Pie<()> = Pie::default();
  pie.resource_state_mut::<Res>().get_or_set_default_mut::<CellStore>().set(0, Some(i));
  pie.new_session().require(&Req(ck));
  pie.resource_state_mut::<Res>().get_or_set_default_mut::<CellStore>().set(0, Some(j));
  EXECS.with(|e| e.borrow_mut().clear());
  {
    let mut s = pie.new_session();
    if bottom_up {
      let mut bu = s.create_bottom_up_build();
      bu.schedule_tasks_affected_by(&Res(0));
      bu.update_affected_tasks();
    } else {
      s.require(&Req(ck));
    }
  }
  let _ = crate::log::take();
  EXECS.with(|e| e.borrow().contains(&"req"))
}

/// What a requirer may legitimately derive from the required output under each checker (the part the checker observes).
fn observed(ck: CK, o: &R) -> i32 {
  match ck {
    CK::Equals => match o { Ok(v) => *v as i32, Err(e) => 100 + *e as i32 },
    CK::OkEquals => match o { Ok(v) => *v as i32, Err(_) => -1 },
    CK::ErrEquals => match o { Err(e) => *e as i32, Ok(_) => -1 },
    CK::Result => o.is_ok() as i32,
    CK::Always => 0,
  }
}

#[derive(Clone, PartialEq, Eq, Hash, Debug)]
struct Obs(CK);
impl Task for Obs {
  type Output = i32;
  fn execute<C: Context>(&self, ctx: &mut C) -> i32 {
    let o = match self.0 {
      CK::Equals => ctx.require(&Leaf, EqualsChecker),
      CK::OkEquals => ctx.require(&Leaf, OkEqualsChecker),
      CK::ErrEquals => ctx.require(&Leaf, ErrEqualsChecker),
      CK::Result => ctx.require(&Leaf, ResultChecker),
      CK::Always => ctx.require(&Leaf, AlwaysConsistent),
    };
    observed(self.0, &o)
  }
}

/// C01 / C03 with pie's *built-in* output checkers: a requirer whose output depends exactly on what its checker
/// observes of the required task's Result output; every transition i -> j of the required output (8 x 8), every
/// checker, top-down (`C01`) or bottom-up followed by a require (`C03`): the value returned must be the from-scratch one.
pub fn builtin_checker_builds(which: &'static str, seed: u64) -> Report {
  let mut rep = Report::new();
  let dom = domain();
  for ck in ALL { for i in 0..dom.len() as u32 { for j in 0..dom.len() as u32 {
    crate::log::clear();
    let mut pie: Pie<()> = Pie::default();
    pie.resource_state_mut::<Res>().get_or_set_default_mut::<CellStore>().set(0, Some(i));
    let first = pie.new_session().require(&Obs(ck));
    pie.resource_state_mut::<Res>().get_or_set_default_mut::<CellStore>().set(0, Some(j));
    let second = {
      let mut s = pie.new_session();
      if which == "C03" { let mut bu = s.create_bottom_up_build(); bu.schedule_tasks_affected_by(&Res(0)); bu.update_affected_tasks(); }
      s.require(&Obs(ck))
    };
    let _ = crate::log::take();
    rep.evaluations += 1;
    rep.count("builtin_output_checker_transitions_in_builds");
    let (w1, w2) = (observed(ck, &dom[i as usize]), observed(ck, &dom[j as usize]));
    if first != w1 || second != w2 {
      let msg = format!("requirer using pie's {:?} checker: required output {:?} -> {:?} ({}): returned {} then {}, executing from scratch gives {} then {}", ck, dom[i as usize], dom[j as usize], if which == "C03" { "bottom-up build, then require" } else { "top-down" }, first, second, w1, w2);
      rep.alarm(Alarm { property: which, signature: format!("builtin-output-checker:{:?}", ck), summary: msg.clone(),
        case: J::obj().with("sub", J::s("builtin-checkers")).with("case", J::from((i * 8 + j) as u64)).with("seed", J::from(seed)), detail: J::obj().with("message", J::s(msg)) });
    }
    if w1 != w2 { rep.nontrivial(0xB1C0 ^ ((ck as u64) << 16) ^ (i as u64 * 8 + j as u64)); }
  } } }
  rep
}

fn gen_rich(rng: &mut Rng) -> Result<(String, Option<u8>), (u64, Rc<str>)> {
  let s = ["", "a", "ab", "b"][rng.below(4)].to_string();
  if rng.chance(1, 2) { Ok((s, if rng.chance(1, 2) { None } else { Some(rng.below(3) as u8) })) } else { Err((rng.below(3) as u64, Rc::from(["x", "y"][rng.below(2)]))) }
}

pub fn run(tier: &str, seed: u64, replay: Option<u64>) -> Report {
  let mut rep = Report::new();
  let dom = domain();
  let alarm = |rep: &mut Report, sig: String, msg: String, case: u64| {
    rep.alarm(Alarm { property: "C12", signature: sig, summary: msg.clone(),
      case: J::obj().with("sub", J::s("pairs")).with("case", J::from(case)).with("seed", J::from(seed)),
      detail: J::obj().with("message", J::s(msg)) });
  };
  // ---- closed domain, exhaustive: 5 checkers x 64 ordered pairs x {direct, proxy, top-down build, bottom-up build}
  let mut case = 0u64;
  for ck in ALL {
    for (i, a) in dom.iter().enumerate() {
      for (j, b) in dom.iter().enumerate() {
        case += 1;
        if replay.map_or(false, |c| c != case) { continue; }
        let want = relation(ck, a, b);
        let (d, p) = verdicts(ck, a, b);
        rep.evaluations += 1;
        rep.count("pairs_direct");
        if d != want { alarm(&mut rep, format!("{:?}:direct", ck), format!("{:?}: checking {:?} against the stamp of {:?} is {} but the documented relation says {}", ck, b, a, if d { "consistent" } else { "inconsistent" }, if want { "consistent" } else { "inconsistent" }), case); }
        if p != want { alarm(&mut rep, format!("{:?}:proxy", ck), format!("{:?} through the object-safe proxy: checking {:?} against the stamp of {:?} is {} but the documented relation says {}", ck, b, a, if p { "consistent" } else { "inconsistent" }, if want { "consistent" } else { "inconsistent" }), case); }
        if !want { rep.nontrivial(case); }
        if tier != "miri" || (i + j) % 5 == 0 {
          for bu in [false, true] {
            let re = in_build(ck, i as u32, j as u32, bu);
            rep.count("pairs_in_builds");
            // the requirer is re-executed iff the relation says inconsistent
            if re == want {
              alarm(&mut rep, format!("{:?}:build", ck), format!("{:?} in a {} build: the required task's output changed from {:?} to {:?}; the requirer was {} but the documented relation says the dependency is {}", ck, if bu { "bottom-up" } else { "top-down" }, a, b, if re { "re-executed" } else { "reused" }, if want { "consistent" } else { "inconsistent" }), case);
            }
          }
        }
      }
    }
  }
  // plain values for EqualsChecker / AlwaysConsistent
  for a in 0..4i32 { for b in 0..4i32 {
    let (d, p) = direct(&EqualsChecker, &a, &b);
    let (d2, p2) = direct(&AlwaysConsistent, &a, &b);
    rep.evaluations += 1;
    if d != (a == b) || p != (a == b) { alarm(&mut rep, "Equals:plain".into(), format!("EqualsChecker on {} vs {}: consistent={}/{}", a, b, d, p), 0); }
    if !d2 || !p2 { alarm(&mut rep, "Always:plain".into(), format!("AlwaysConsistent on {} vs {} reported inconsistent", a, b), 0); }
  } }
  // ---- other payload types (direct and through the proxy): zero-sized, unit structs, heap-allocated, nested
  if replay.is_none() {
    #[derive(Clone, Debug, PartialEq, Eq)] struct Done;
    #[derive(Clone, Debug, PartialEq, Eq)] struct Failed;
    fn over<T: Clone + Eq + Debug + 'static, E: Clone + Eq + Debug + 'static>(rep: &mut Report, name: &str, dom: Vec<Result<T, E>>, alarm: &dyn Fn(&mut Report, String, String, u64)) {
      for ck in ALL { for a in &dom { for b in &dom {
        let want = relation(ck, a, b);
        let (d, p) = verdicts(ck, a, b);
        rep.evaluations += 1;
        rep.count("pairs_direct_other_payload_types");
        if d != want || p != want { alarm(rep, format!("{:?}:payload-types", ck), format!("{:?} on {}: checking {:?} against the stamp of {:?}: direct={} proxy={} but the documented relation says {}", ck, name, b, a, d, p, want), 0); }
      } } }
      rep.seen("payload_type_families", name);
    }
    // payloads whose Debug text and equality disagree: Terse prints only its code; Attempt's equality ignores `attempt`
    #[derive(Clone, PartialEq, Eq)] struct Terse { code: u8, detail: u8 }
    impl Debug for Terse { fn fmt(&self, f: &mut std::fmt::Formatter<'_>) -> std::fmt::Result { write!(f, "E{}", self.code) } }
    #[derive(Clone, Debug)] struct Attempt { message: u8, attempt: u8 }
    impl PartialEq for Attempt { fn eq(&self, o: &Self) -> bool { self.message == o.message } }
    impl Eq for Attempt {}
    over::<Terse, Terse>(&mut rep, "Result<Terse, Terse> (Debug shows less than Eq compares)", vec![Ok(Terse { code: 1, detail: 0 }), Ok(Terse { code: 1, detail: 1 }), Ok(Terse { code: 2, detail: 0 }), Err(Terse { code: 1, detail: 0 }), Err(Terse { code: 1, detail: 1 }), Err(Terse { code: 2, detail: 0 })], &alarm);
    over::<Attempt, Attempt>(&mut rep, "Result<Attempt, Attempt> (Debug shows more than Eq compares)", vec![Ok(Attempt { message: 1, attempt: 0 }), Ok(Attempt { message: 1, attempt: 1 }), Ok(Attempt { message: 2, attempt: 0 }), Err(Attempt { message: 1, attempt: 0 }), Err(Attempt { message: 1, attempt: 1 }), Err(Attempt { message: 2, attempt: 0 })], &alarm);
    over::<(), ()>(&mut rep, "Result<(), ()>", vec![Ok(()), Err(())], &alarm);
    over::<(), i8>(&mut rep, "Result<(), i8>", vec![Ok(()), Err(0), Err(1)], &alarm);
    over::<i8, ()>(&mut rep, "Result<i8, ()>", vec![Ok(0), Ok(1), Err(())], &alarm);
    over::<Done, Failed>(&mut rep, "Result<Done, Failed> (unit structs)", vec![Ok(Done), Err(Failed)], &alarm);
    over::<Done, String>(&mut rep, "Result<Done, String>", vec![Ok(Done), Err("".into()), Err("x".into())], &alarm);
    over::<String, Failed>(&mut rep, "Result<String, Failed>", vec![Ok("".into()), Ok("x".into()), Err(Failed)], &alarm);
    over::<String, String>(&mut rep, "Result<String, String>", vec![Ok("".into()), Ok("a".into()), Err("".into()), Err("a".into())], &alarm);
    over::<Box<i8>, Rc<i8>>(&mut rep, "Result<Box<i8>, Rc<i8>>", vec![Ok(Box::new(0)), Ok(Box::new(1)), Err(Rc::new(0)), Err(Rc::new(1))], &alarm);
    over::<Option<i8>, Vec<i8>>(&mut rep, "Result<Option<i8>, Vec<i8>>", vec![Ok(None), Ok(Some(0)), Err(vec![]), Err(vec![0]), Err(vec![0, 0])], &alarm);
    over::<Result<i8, ()>, Option<()>>(&mut rep, "Result<Result<i8, ()>, Option<()>>", vec![Ok(Ok(0)), Ok(Err(())), Err(None), Err(Some(()))], &alarm);
    over::<std::marker::PhantomData<u8>, [u8; 0]>(&mut rep, "Result<PhantomData<u8>, [u8; 0]>", vec![Ok(std::marker::PhantomData), Err([])], &alarm);
  }
  rep.exhaustive = replay.is_none();
  // ---- random pairs of richer types
  if tier == "thorough" && replay.is_none() {
    let n: u64 = 1_000_000;
    let parts = util::parallel(16, util::threads(), 16, Report::new, |shard, r: &mut Report| {
      let mut rng = Rng::derive(seed ^ 0xC12, shard);
      for k in 0..n / 16 {
        let (a, b) = (gen_rich(&mut rng), if rng.chance(1, 4) { gen_rich(&mut rng) } else { gen_rich(&mut rng) });
        let b = if rng.chance(1, 5) { a.clone() } else { b };
        for ck in ALL {
          let want = relation(ck, &a, &b);
          let (d, p) = verdicts(ck, &a, &b);
          if d != want || p != want {
            r.alarm(Alarm { property: "C12", signature: format!("{:?}:random", ck), summary: format!("{:?}: {:?} vs stamp of {:?}: direct={} proxy={} documented={}", ck, b, a, d, p, want),
              case: J::obj().with("sub", J::s("random")).with("case", J::from(shard * 1_000_000 + k)), detail: J::Null });
          }
        }
        r.evaluations += 1;
      }
      r.count("random_shards");
      true
    });
    for p in parts { rep.merge(p); }
  }
  rep.sample(|| J::s(format!("domain = {:?}; every ordered pair (o1, o2): check(o2, stamp(o1)) for Equals/OkEquals/ErrEquals/Result/Always", dom)));
  rep.rule = "closed domain Result<i8,i8> with 4 Ok and 4 Err payloads: ALL 64 ordered pairs x 5 checkers are enumerated (exhaustive), each (a) directly through OutputChecker::stamp/check, (b) through the object-safe proxy OutputCheckerObj, (c) inside a real top-down build and (d) a real bottom-up build where the required task's output changes from o1 to o2 (requirer must be re-executed iff the documented relation says inconsistent); plain integers for EqualsChecker/AlwaysConsistent; all ordered pairs of small domains of thirteen other payload-type families (payloads whose Debug text shows less / more than their equality compares; zero-sized (), unit structs, PhantomData, [u8; 0]; String; Box / Rc; Option / Vec; nested Result), directly and through the proxy; thorough adds 10^6 random pairs of Result<(String, Option<u8>), (u64, Rc<str>)>. distinct non-trivial = pairs the documented relation calls inconsistent.".into();
  rep.floor("in-build pairs ran", rep.get("pairs_in_builds") > 100 || replay.is_some());
  rep
}
