//! The totally ordered, thread-local event log. Everything in a run is single-threaded, so the order of `push` calls
//! *is* the history. All observers (harness, task scripts, checkers, resource, tracker) write here.

use std::cell::RefCell;

use crate::util::Fnv;

/// Checker kinds for resources: what a reader/writer observes of a cell value.
#[derive(Clone, Copy, PartialEq, Eq, Hash, Debug, PartialOrd, Ord)]
pub enum Kind { Always, Exists, Parity, Exact }

/// Checker kinds for task outputs.
#[derive(Clone, Copy, PartialEq, Eq, Hash, Debug, PartialOrd, Ord)]
pub enum OKind { Always, Parity, Exact }

impl Kind {
  /// Abstraction of a cell value: the only thing a task (or a stamp) gets to see.
  #[inline]
  pub fn abs(self, v: Option<u32>) -> i32 {
    match (self, v) {
      (Kind::Always, _) => 0,
      (Kind::Exists, None) => 0,
      (Kind::Exists, Some(_)) => 1,
      (Kind::Parity, None) => -1,
      (Kind::Parity, Some(v)) => (v % 2) as i32,
      (Kind::Exact, None) => -1,
      (Kind::Exact, Some(v)) => v as i32,
    }
  }
  /// `self` distinguishes everything `other` distinguishes.
  pub fn refines(self, other: Kind) -> bool { self >= other }
  pub fn all() -> [Kind; 4] { [Kind::Always, Kind::Exists, Kind::Parity, Kind::Exact] }
}

impl OKind {
  #[inline]
  pub fn abs(self, out: u32) -> i32 {
    match self {
      OKind::Always => 0,
      OKind::Parity => (out % 2) as i32,
      OKind::Exact => out as i32,
    }
  }
}

#[derive(Clone, Copy, PartialEq, Eq, Debug)]
pub enum Verdict { Consistent, Inconsistent, Err(u32) }

#[derive(Clone, Copy, PartialEq, Eq, Hash, Debug)]
pub enum Via { Ctx, Declared }

/// Tracker methods (all 23).
#[derive(Clone, Copy, PartialEq, Eq, Hash, Debug, PartialOrd, Ord)]
pub enum TM {
  BuildStart, BuildEnd,
  RequireStart, RequireEnd,
  ReadStart, ReadEnd, WriteStart, WriteEnd,
  CheckTaskStart, CheckTaskEnd, CheckResourceStart, CheckResourceEnd,
  ExecuteStart, ExecuteEnd,
  SchedAffByTaskStart, CheckTaskRequireTaskStart, CheckTaskRequireTaskEnd, SchedAffByTaskEnd,
  SchedAffByResStart, CheckTaskReadResStart, CheckTaskReadResEnd, SchedAffByResEnd,
  ScheduleTask,
}
pub const ALL_TM: [TM; 23] = [
  TM::BuildStart, TM::BuildEnd, TM::RequireStart, TM::RequireEnd, TM::ReadStart, TM::ReadEnd, TM::WriteStart, TM::WriteEnd,
  TM::CheckTaskStart, TM::CheckTaskEnd, TM::CheckResourceStart, TM::CheckResourceEnd, TM::ExecuteStart, TM::ExecuteEnd,
  TM::SchedAffByTaskStart, TM::CheckTaskRequireTaskStart, TM::CheckTaskRequireTaskEnd, TM::SchedAffByTaskEnd,
  TM::SchedAffByResStart, TM::CheckTaskReadResStart, TM::CheckTaskReadResEnd, TM::SchedAffByResEnd, TM::ScheduleTask,
];

/// A tracker callback with its arguments rendered through `Debug` (the arguments are trait objects).
#[derive(Clone, PartialEq, Eq, Debug)]
pub struct TrkEv {
  pub m: TM,
  pub subject: String,
  pub checker: String,
  pub stamp: String,
  pub extra: String,
}

#[derive(Clone, PartialEq, Debug)]
pub enum Ev {
  // ---- harness
  ExtSet { res: u32, val: Option<u32> },
  SessionOpen { n: u32 },
  SessionClose,
  RootCall { task: u32 },
  RootRet { task: u32, out: u32 },
  Abort { msg: String },
  BuCreate,
  BuSchedule { res: u32 },
  /// A bottom-up build that was told about resources and then dropped without `update_affected_tasks`.
  BuAbandon,
  BuUpdateCall,
  BuUpdateRet,
  DepErrors { errs: Vec<String> },
  Arm { owner: u32, res: u32, on: bool },
  // ---- task side (scripted task type)
  ExecStart { task: u32 },
  ExecEnd { task: u32, out: u32 },
  ReqCall { task: u32, target: u32, ok: OKind },
  ReqRet { task: u32, target: u32, out: u32 },
  ReadCall { task: u32, res: u32, kind: Kind },
  ReadRet { task: u32, res: u32, reader: Option<u32>, err: Option<u32> },
  WriteCall { task: u32, res: u32, kind: Kind, via: Via },
  WriteFnEnter { task: u32, res: u32, writer: u32 },
  WriteFnLeave { task: u32, res: u32, ok: bool },
  WriteRet { task: u32, res: u32, err: Option<u32> },
  CreateWriterRet { task: u32, res: u32, writer: Option<u32> },
  // ---- resource side
  ResRead { res: u32, reader: u32 },
  ResWrite { res: u32, writer: Option<u32> },
  ReaderGet { reader: u32, res: u32, val: Option<u32> },
  WriterSet { writer: u32, res: u32, val: Option<u32> },
  // ---- checker side
  Stamp { owner: u32, kind: Kind, res: u32, now: Option<u32>, stamp: Option<i32> },
  StampReader { owner: u32, kind: Kind, res: u32, reader: u32, gets_before: u32, stamp: Option<i32> },
  StampWriter { owner: u32, kind: Kind, res: u32, writer: u32, now: Option<u32>, stamp: Option<i32> },
  Check { owner: u32, kind: Kind, res: u32, stamp: i32, now: Option<u32>, verdict: Verdict },
  OStamp { owner: u32, ok: OKind, target: u32, out: u32, stamp: i32 },
  OCheck { owner: u32, ok: OKind, target: u32, out: u32, stamp: i32, consistent: bool },
  // ---- tracker
  Trk(TrkEv),
}

thread_local! {
  static LOG: RefCell<Vec<Ev>> = const { RefCell::new(Vec::new()) };
  static SERIAL: RefCell<u32> = const { RefCell::new(0) };
}

/// Upper bound on events per session. Real sessions of the generated programs stay far below it; unbounded recursion
/// inside pie (e.g. validation walking a dependency cycle that was not rejected) reaches it long before the stack ends,
/// and the resulting panic is reported as a step-bound abort instead of killing the process.
pub const MAX_EVENTS_PER_SESSION: usize = 20_000;

#[inline]
pub fn push(ev: Ev) {
  let over = LOG.with(|l| { let mut l = l.borrow_mut(); l.push(ev); l.len() > MAX_EVENTS_PER_SESSION });
  if over {
    // make room so that the unwinding code can keep logging, then raise the alarm
    LOG.with(|l| l.borrow_mut().truncate(MAX_EVENTS_PER_SESSION / 2));
    panic!("{}", crate::cell::STEP_BOUND_MARKER);
  }
}

pub fn len() -> usize { LOG.with(|l| l.borrow().len()) }

/// Takes the whole log (leaves it empty).
pub fn take() -> Vec<Ev> { LOG.with(|l| std::mem::take(&mut *l.borrow_mut())) }

pub fn clear() { LOG.with(|l| l.borrow_mut().clear()); SERIAL.with(|s| *s.borrow_mut() = 0); }

/// Fresh serial number for readers / writers / injected errors (unique within a run).
pub fn serial() -> u32 { SERIAL.with(|s| { let mut s = s.borrow_mut(); *s += 1; *s }) }

pub fn digest(evs: &[Ev]) -> u64 {
  let mut h = Fnv::default();
  for e in evs { h.str(&format!("{:?}", e)); }
  h.0
}

pub fn render_window(evs: &[Ev], center: usize, radius: usize) -> Vec<String> {
  let lo = center.saturating_sub(radius);
  let hi = (center + radius + 1).min(evs.len());
  (lo..hi).map(|i| format!("{}{:>5}: {:?}", if i == center { ">" } else { " " }, i, evs[i])).collect()
}
