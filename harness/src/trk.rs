//! Full-fidelity trackers: all 23 callbacks, arguments rendered through `Debug`.

use std::error::Error;
use std::fmt::Debug;

use pie::tracker::Tracker;
use pie::trait_object::{KeyObj, ValueObj};

use crate::log::{self, Ev, TrkEv, TM};

fn k(x: &dyn KeyObj) -> String { format!("{:?}", x) }
fn v(x: &dyn ValueObj) -> String { format!("{:?}", x) }
fn inc(x: Option<&dyn Debug>) -> String { match x { None => "consistent".into(), Some(d) => format!("inconsistent({:?})", d) } }
fn incr(x: Result<Option<&dyn Debug>, &dyn Error>) -> String {
  match x { Ok(None) => "consistent".into(), Ok(Some(d)) => format!("inconsistent({:?})", d), Err(e) => format!("error({})", e) }
}

pub trait Sink { fn put(&mut self, e: TrkEv); }

/// Generic full-fidelity tracker over a sink.
pub struct FullTrk<S: Sink>(pub S);

macro_rules! ev {
  ($self:ident, $m:expr, $subject:expr, $checker:expr, $stamp:expr, $extra:expr) => {
    $self.0.put(TrkEv { m: $m, subject: $subject, checker: $checker, stamp: $stamp, extra: $extra })
  };
}

impl<S: Sink> Tracker for FullTrk<S> {
  fn build_start(&mut self) { ev!(self, TM::BuildStart, String::new(), String::new(), String::new(), String::new()); }
  fn build_end(&mut self) { ev!(self, TM::BuildEnd, String::new(), String::new(), String::new(), String::new()); }
  fn require_start(&mut self, task: &dyn KeyObj, checker: &dyn ValueObj) { ev!(self, TM::RequireStart, k(task), v(checker), String::new(), String::new()); }
  fn require_end(&mut self, task: &dyn KeyObj, checker: &dyn ValueObj, stamp: &dyn ValueObj, output: &dyn ValueObj) {
    ev!(self, TM::RequireEnd, k(task), v(checker), v(stamp), v(output));
  }
  fn read_start(&mut self, resource: &dyn KeyObj, checker: &dyn ValueObj) { ev!(self, TM::ReadStart, k(resource), v(checker), String::new(), String::new()); }
  fn read_end(&mut self, resource: &dyn KeyObj, checker: &dyn ValueObj, stamp: &dyn ValueObj) { ev!(self, TM::ReadEnd, k(resource), v(checker), v(stamp), String::new()); }
  fn write_start(&mut self, resource: &dyn KeyObj, checker: &dyn ValueObj) { ev!(self, TM::WriteStart, k(resource), v(checker), String::new(), String::new()); }
  fn write_end(&mut self, resource: &dyn KeyObj, checker: &dyn ValueObj, stamp: &dyn ValueObj) { ev!(self, TM::WriteEnd, k(resource), v(checker), v(stamp), String::new()); }
  fn check_task_start(&mut self, task: &dyn KeyObj, checker: &dyn ValueObj, stamp: &dyn ValueObj) { ev!(self, TM::CheckTaskStart, k(task), v(checker), v(stamp), String::new()); }
  fn check_task_end(&mut self, task: &dyn KeyObj, checker: &dyn ValueObj, stamp: &dyn ValueObj, inconsistency: Option<&dyn Debug>) {
    ev!(self, TM::CheckTaskEnd, k(task), v(checker), v(stamp), inc(inconsistency));
  }
  fn check_resource_start(&mut self, resource: &dyn KeyObj, checker: &dyn ValueObj, stamp: &dyn ValueObj) { ev!(self, TM::CheckResourceStart, k(resource), v(checker), v(stamp), String::new()); }
  fn check_resource_end(&mut self, resource: &dyn KeyObj, checker: &dyn ValueObj, stamp: &dyn ValueObj, inconsistency: Result<Option<&dyn Debug>, &dyn Error>) {
    ev!(self, TM::CheckResourceEnd, k(resource), v(checker), v(stamp), incr(inconsistency));
  }
  fn execute_start(&mut self, task: &dyn KeyObj) { ev!(self, TM::ExecuteStart, k(task), String::new(), String::new(), String::new()); }
  fn execute_end(&mut self, task: &dyn KeyObj, output: &dyn ValueObj) { ev!(self, TM::ExecuteEnd, k(task), String::new(), String::new(), v(output)); }
  fn schedule_affected_by_task_start(&mut self, task: &dyn KeyObj) { ev!(self, TM::SchedAffByTaskStart, k(task), String::new(), String::new(), String::new()); }
  fn check_task_require_task_start(&mut self, requiring_task: &dyn KeyObj, checker: &dyn ValueObj, stamp: &dyn ValueObj) {
    ev!(self, TM::CheckTaskRequireTaskStart, k(requiring_task), v(checker), v(stamp), String::new());
  }
  fn check_task_require_task_end(&mut self, requiring_task: &dyn KeyObj, checker: &dyn ValueObj, stamp: &dyn ValueObj, inconsistency: Option<&dyn Debug>) {
    ev!(self, TM::CheckTaskRequireTaskEnd, k(requiring_task), v(checker), v(stamp), inc(inconsistency));
  }
  fn schedule_affected_by_task_end(&mut self, task: &dyn KeyObj) { ev!(self, TM::SchedAffByTaskEnd, k(task), String::new(), String::new(), String::new()); }
  fn schedule_affected_by_resource_start(&mut self, resource: &dyn KeyObj) { ev!(self, TM::SchedAffByResStart, k(resource), String::new(), String::new(), String::new()); }
  fn check_task_read_resource_start(&mut self, reading_task: &dyn KeyObj, checker: &dyn ValueObj, stamp: &dyn ValueObj) {
    ev!(self, TM::CheckTaskReadResStart, k(reading_task), v(checker), v(stamp), String::new());
  }
  fn check_task_read_resource_end(&mut self, reading_task: &dyn KeyObj, checker: &dyn ValueObj, stamp: &dyn ValueObj, inconsistency: Result<Option<&dyn Debug>, &dyn Error>) {
    ev!(self, TM::CheckTaskReadResEnd, k(reading_task), v(checker), v(stamp), incr(inconsistency));
  }
  fn schedule_affected_by_resource_end(&mut self, resource: &dyn KeyObj) { ev!(self, TM::SchedAffByResEnd, k(resource), String::new(), String::new(), String::new()); }
  fn schedule_task(&mut self, task: &dyn KeyObj) { ev!(self, TM::ScheduleTask, k(task), String::new(), String::new(), String::new()); }
}

/// Sink that writes into the global thread-local event log.
#[derive(Default)]
pub struct ToLog;
impl Sink for ToLog { fn put(&mut self, e: TrkEv) { log::push(Ev::Trk(e)); } }
pub type LogTrk = FullTrk<ToLog>;
pub fn log_trk() -> LogTrk { FullTrk(ToLog) }

/// Sink that records into its own vector.
#[derive(Default)]
pub struct ToVec(pub Vec<TrkEv>);
impl Sink for ToVec { fn put(&mut self, e: TrkEv) { self.0.push(e); } }
pub type RecTrk = FullTrk<ToVec>;
pub fn rec_trk() -> RecTrk { FullTrk(ToVec::default()) }
