//! Monitors over the recorded event log of one session. Each returns findings tagged with the property they refute.

use std::collections::{BTreeMap, BTreeSet};

use crate::cell::{Chk, OChk};
use crate::driver::SessionRec;
use crate::log::{Ev, Kind, TrkEv, Verdict, Via, TM};
use crate::prog::Program;
use crate::refm::RefRun;
use crate::shadow::{self, DKind, Decl, DumpDiff, Shadow, Status};

#[derive(Clone, Debug)]
pub struct Finding {
  pub prop: &'static str,
  pub sig: String,
  pub msg: String,
  pub at: usize,
}

impl Finding {
  /// (reader, resource, writer) of a K4 / reader-without-path finding, parsed back from the message.
  pub fn k4_key(&self) -> Option<(u32, u32, u32)> {
    let m = self.msg.split("returned, T").nth(1)?;
    let x: u32 = m.split(' ').next()?.parse().ok()?;
    let r: u32 = m.split(" reads R").nth(1)?.split(' ').next()?.parse().ok()?;
    let w: u32 = m.split(" written by T").nth(1)?.split(' ').next()?.parse().ok()?;
    Some((x, r, w))
  }
}

fn f(prop: &'static str, sig: &str, at: usize, msg: String) -> Finding { Finding { prop, sig: sig.to_string(), msg, at } }

#[inline]
fn is_trk(e: &Ev) -> bool { matches!(e, Ev::Trk(_)) }

/// Index of the previous / next non-tracker event.
fn prev_nt(evs: &[Ev], i: usize) -> Option<usize> { (0..i).rev().find(|&j| !is_trk(&evs[j])) }
fn next_nt(evs: &[Ev], i: usize) -> Option<usize> { (i + 1..evs.len()).find(|&j| !is_trk(&evs[j])) }

/// Non-tracker events strictly between `a` and `b`.
fn between(evs: &[Ev], a: usize, b: usize) -> Vec<&Ev> { evs[a + 1..b].iter().filter(|e| !is_trk(e)).collect() }

// ---------------------------------------------------------------------------------------------------------------
// Pass with a live shadow: C05, C06, C07 (online legality), C09 (call patterns, stamps handed back), C08 (leftovers)
// ---------------------------------------------------------------------------------------------------------------

pub fn pass_live(rec: &SessionRec) -> Vec<Finding> {
  let mut out = Vec::new();
  let evs = &rec.events;
  let mut sh = rec.shadow_before.clone();
  let mut stack: Vec<u32> = Vec::new();
  // last *Call index per task (for pattern windows)
  let mut last_call: BTreeMap<u32, usize> = BTreeMap::new();
  for (i, ev) in evs.iter().enumerate() {
    match ev {
      Ev::ExecStart { task } => {
        if stack.contains(task) {
          out.push(f("C07", "task-entered-twice", i, format!("T{} starts executing while it is already executing (stack {:?})", task, stack)));
        }
        stack.push(*task);
      }
      Ev::ExecEnd { task, .. } => {
        if stack.last() != Some(task) {
          out.push(f("C07", "exec-nesting", i, format!("T{} ends but the executing stack is {:?}", task, stack)));
        }
        stack.pop();
      }
      Ev::Abort { .. } => stack.clear(),
      Ev::ReqCall { task, .. } | Ev::ReadCall { task, .. } | Ev::WriteCall { task, .. } => { last_call.insert(*task, i); }
      Ev::ReqRet { task, target, out: o } => {
        if stack.contains(target) {
          out.push(f("C07", "value-for-task-on-stack", i, format!("require of T{} returned {} to T{} although T{} is still executing (stack {:?})", target, o, task, target, stack)));
        }
        // C09: the stamp is taken from the value that is returned
        match prev_nt(evs, i).map(|j| &evs[j]) {
          Some(Ev::OStamp { owner, target: t2, out: o2, ok, stamp }) if owner == task && t2 == target => {
            if o2 != o { out.push(f("C09", "require-stamp-of-other-value", i, format!("T{} received {} from T{} but its checker stamped {}", task, o, target, o2))); }
            if *stamp != ok.abs(*o2) { out.push(f("C09", "require-stamp-wrong", i, format!("harness checker bug? stamp {} for out {}", stamp, o2))); }
          }
          other => out.push(f("C09", "require-without-stamp", i, format!("require of T{} returned to T{} but the previous user-visible event is {:?}, not the stamp of the returned output by T{}'s checker", target, task, other, task))),
        }
        if sh.tasks[*target as usize].output != Some(*o) {
          out.push(f("C09", "require-returns-unknown-value", i, format!("require of T{} returned {} but its latest execution produced {:?}", target, o, sh.tasks[*target as usize].output)));
        }
      }
      Ev::ReadRet { task, res, reader: Some(k), .. } => {
        // C05: legality of a read that returns
        for w in sh.writers_of(*res) {
          if w != *task && !sh.reaches(*task, w) {
            out.push(f("C05", "hidden-read-returned", i, format!("read of R{} returned to T{} although T{} has a recorded write of it and T{} does not (transitively) require T{}", res, task, w, task, w)));
          }
        }
        // C09: pattern
        if let Some(&j) = last_call.get(task) {
          if let Ev::ReadCall { kind, res: r2, .. } = &evs[j] {
            let mid = between(evs, j, i);
            // The property: the stamp comes from the very reader handed to the task, before the task reads. Demanded:
            // the reader handed over (k) was produced by Resource::read in this window, the LAST stamp call of this
            // owner in the window is stamp_reader on reader k while it was unread. (Further calls are not forbidden.)
            let opened = mid.iter().any(|e| matches!(e, Ev::ResRead { res: r, reader } if r == res && reader == k));
            let last_stamp = mid.iter().rev().find(|e| matches!(e, Ev::StampReader { owner, .. } | Ev::Stamp { owner, .. } | Ev::StampWriter { owner, .. } if owner == task));
            let ok = r2 == res && opened && matches!(last_stamp, Some(Ev::StampReader { owner, kind: k2, res: r, reader, gets_before: 0, stamp: Some(_) }) if owner == task && k2 == kind && r == res && reader == k);
            if !ok {
              out.push(f("C09", "read-pattern", i, format!("read of R{} by T{}: the stamp must be taken by stamp_reader on the very reader handed to the task (#{}), before the task reads; saw {:?}", res, task, k, mid)));
            } else if let Some(Ev::StampReader { stamp: Some(s), .. }) = last_stamp {
              match next_nt(evs, i).map(|n| &evs[n]) {
                Some(Ev::ReaderGet { reader, val, .. }) if reader == k => {
                  if kind.abs(*val) != *s { out.push(f("C09", "read-stamp-mismatch", i, format!("T{} read {:?} from R{} but the stamp taken from its reader was {}", task, val, res, s))); }
                }
                other => out.push(f("C09", "read-other-reader", i, format!("T{} was handed reader #{} for R{} but the next event is {:?}", task, k, res, other))),
              }
            }
          }
        }
      }
      Ev::WriteFnEnter { task, res, .. } => { legality_of_write(&sh, *task, *res, i, &mut out); }
      Ev::WriteRet { task, res, err: None } => {
        if let Some(&j) = last_call.get(task) {
          if let Ev::WriteCall { kind, via, res: r2, .. } = &evs[j] {
            if *via == Via::Declared { legality_of_write(&sh, *task, *res, i, &mut out); }
            let mid = between(evs, j, i);
            // The property: the stamp is taken after the task's write function has finished (Context::write), from
            // the writer the task used; for written_to at call time. Demanded: the last stamp call of this owner in the
            // window comes after the last WriterSet / WriteFnLeave, sees the value just written, and (Context::write) is
            // stamp_writer on the writer that was handed to the write function.
            let last_set = mid.iter().rposition(|e| matches!(e, Ev::WriterSet { res: r, .. } if r == res));
            let last_stamp = mid.iter().rposition(|e| matches!(e, Ev::StampReader { owner, .. } | Ev::Stamp { owner, .. } | Ev::StampWriter { owner, .. } if owner == task));
            let written = last_set.map(|p| if let Ev::WriterSet { val, writer, .. } = mid[p] { (*val, *writer) } else { (None, 0) });
            let ok = r2 == res && match (via, last_set, last_stamp, written) {
              (Via::Ctx, Some(ps), Some(pt), Some((val, w))) => {
                let leave = mid.iter().rposition(|e| matches!(e, Ev::WriteFnLeave { ok: true, .. }));
                ps < pt && leave.map_or(false, |pl| pl < pt)
                  && mid.iter().any(|e| matches!(e, Ev::WriteFnEnter { task: t, res: r3, writer: w2 } if t == task && r3 == res && *w2 == w))
                  && matches!(mid[pt], Ev::StampWriter { owner, kind: k2, res: r, writer: w2, now, stamp: Some(s) } if owner == task && k2 == kind && r == res && *w2 == w && *now == val && *s == kind.abs(val))
              }
              (Via::Declared, Some(ps), Some(pt), Some((val, _))) => {
                ps < pt && matches!(mid[pt], Ev::Stamp { owner, kind: k2, res: r, now, stamp: Some(s) } if owner == task && k2 == kind && r == res && *now == val && *s == kind.abs(val))
              }
              _ => false,
            };
            if !ok {
              out.push(f("C09", "write-pattern", i, format!("write of R{} by T{} via {:?}: expected Resource::write -> write function -> stamp of the written value -> return, saw {:?}", res, task, via, mid)));
            }
          }
        }
      }
      Ev::Check { owner, kind, res, stamp, .. } => {
        let want = format!("{:?}", Chk { kind: *kind, owner: *owner, fail_stamp: false });
        let (decls, _) = sh.tasks[*owner as usize].collapsed();
        match decls.iter().find(|d| !d.is_task_target() && d.target == *res) {
          None => out.push(f("C08", "check-of-undeclared-dependency", i, format!("a resource dependency of T{} on R{} was checked, but T{}'s latest execution declared no such dependency", owner, res, owner))),
          Some(d) => {
            if d.chk != want { out.push(f("C09", "check-with-other-checker", i, format!("dependency of T{} on R{} was checked by {} but was created with {}", owner, res, want, d.chk))); }
            else if d.stamp != *stamp { out.push(f("C09", "check-with-other-stamp", i, format!("dependency of T{} on R{} was checked against stamp {} but was created with stamp {}", owner, res, stamp, d.stamp))); }
          }
        }
      }
      Ev::OCheck { owner, ok, target, out: o, stamp, .. } => {
        let want = format!("{:?}", OChk { kind: *ok, owner: *owner, target: *target });
        let (decls, _) = sh.tasks[*owner as usize].collapsed();
        match decls.iter().find(|d| d.kind == DKind::Require && d.target == *target) {
          None => out.push(f("C08", "check-of-undeclared-dependency", i, format!("a require dependency of T{} on T{} was checked, but T{}'s latest execution declared no such dependency", owner, target, owner))),
          Some(d) => {
            if d.chk != want { out.push(f("C09", "check-with-other-checker", i, format!("require dependency of T{} on T{} was checked by {} but was created with {}", owner, target, want, d.chk))); }
            else if d.stamp != *stamp { out.push(f("C09", "check-with-other-stamp", i, format!("require dependency of T{} on T{} was checked against stamp {} but was created with stamp {}", owner, target, stamp, d.stamp))); }
          }
        }
        if sh.tasks[*target as usize].output != Some(*o) {
          out.push(f("C09", "check-of-other-output", i, format!("require dependency of T{} on T{} was checked against output {} but T{}'s current output is {:?}", owner, target, o, target, sh.tasks[*target as usize].output)));
        }
      }
      _ => {}
    }
    sh.apply(ev);
  }
  // Abort diagnostics: a diagnosed write-side violation through Context::write must abort before modification.
  if let Some(msg) = &rec.aborted {
    let kind = crate::hist::abort_kind(msg);
    if kind == "hidden-dependency" || kind == "overlapping-write" {
      // the innermost pending WriteCall (if the abort came from a write): no write function may have run after it
      if let Some(j) = evs.iter().rposition(|e| matches!(e, Ev::WriteCall { .. } | Ev::ReadCall { .. } | Ev::ReqCall { .. })) {
        if let Ev::WriteCall { via: Via::Ctx, res, task, .. } = &evs[j] {
          let completed = evs[j..].iter().any(|e| matches!(e, Ev::WriteRet { task: t, res: r, .. } if t == task && r == res));
          if !completed {
            if let Some(k) = evs[j..].iter().position(|e| matches!(e, Ev::WriteFnEnter { .. } | Ev::WriterSet { .. })) {
              let prop = if kind == "hidden-dependency" { "C05" } else { "C06" };
              out.push(f(prop, "abort-after-modification", j + k, format!("write of R{} by T{} was aborted ({}) after the resource had already been opened for modification", res, task, &msg[..msg.len().min(40)])));
            }
          }
        }
      }
    }
  }
  out
}

fn legality_of_write(sh: &Shadow, task: u32, res: u32, i: usize, out: &mut Vec<Finding>) {
  for w in sh.writers_of(res) {
    if w != task {
      out.push(f("C06", "overlapping-write-proceeded", i, format!("T{} writes R{} although T{} is its recorded writer", task, res, w)));
    }
  }
  for x in sh.readers_of(res) {
    if x != task && !sh.reaches(x, task) {
      out.push(f("C05", "hidden-write-proceeded", i, format!("T{} writes R{} although T{} has a recorded read of it and does not (transitively) require T{}", task, res, x, task)));
    }
  }
}

// ---------------------------------------------------------------------------------------------------------------
// Quiescent-point checks on the store dump: C08 (dump == shadow), C05/C06 final structure.
// ---------------------------------------------------------------------------------------------------------------

pub fn check_dump(rec: &SessionRec, sh_after: &Shadow) -> Vec<Finding> {
  let mut out = Vec::new();
  if rec.dump.absent { return out; }
  let at = rec.events.len().saturating_sub(1);
  match shadow::compare(sh_after, &rec.dump) {
    DumpDiff::Same => {}
    DumpDiff::MultiChecker(m) => out.push(f("C08", "K2-multi-checker-target", at, m)),
    DumpDiff::Different(m) => {
      let prop = if m.starts_with("structural problem") && m.contains("rank") { "C10" } else { "C08" };
      out.push(f(prop, "store-differs-from-declared", at, m));
    }
  }
  if rec.aborted.is_none() {
    for (r, dr) in &rec.dump.res {
      let writers: Vec<u32> = dr.incoming.iter().filter(|x| x.1 == DKind::Write).map(|x| x.0).collect();
      if writers.len() > 1 { out.push(f("C06", "two-writers-after-build", at, format!("after a build that returned, R{} has writers {:?}", r, writers))); }
    }
    for (x, r, w, legal_then) in unrelated_reader_writer_pairs(rec, sh_after) {
      if legal_then {
        // A path existed when the second access happened; it went through a task that has since re-executed and
        // dropped its require (finding K4).
        out.push(f("C05", "K4-legality-path-removed-later", at, format!("after a build that returned, T{} reads R{} written by T{} without (transitively) requiring it: the path that made this legal when the second of the two accesses happened went through a task that has been re-executed since and no longer requires the writer's side", x, r, w)));
      } else {
        out.push(f("C05", "reader-without-path-after-build", at, format!("after a build that returned, T{} reads R{} written by T{} without (transitively) requiring it", x, r, w)));
      }
    }
  }
  out
}

/// Completed readers of a resource that do not (transitively) require its completed writer, according to the store
/// dump taken after the session: (reader, resource, writer, was the later of the two accesses legal when it happened).
/// Computed whether or not the session aborted (the second oracle uses it to recognise finding K4).
pub fn unrelated_reader_writer_pairs(rec: &SessionRec, sh_after: &Shadow) -> Vec<(u32, u32, u32, bool)> {
  let mut out = Vec::new();
  if !rec.dump.problems.is_empty() || rec.dump.absent { return out; }
  for (r, dr) in &rec.dump.res {
    let writers: Vec<u32> = dr.incoming.iter().filter(|x| x.1 == DKind::Write).map(|x| x.0).collect();
    let Some(w) = writers.first() else { continue; };
    for (x, k) in &dr.incoming {
      // only completed tasks are readers in any meaningful sense (leftovers of aborted executions hold no result)
      if *k == DKind::Read && x != w && sh_after.tasks[*x as usize].status == Status::Completed && sh_after.tasks[*w as usize].status == Status::Completed && !dump_reaches(&rec.dump, *x, *w) {
        // Was the later of the two accesses legal when it happened? If it happened in this session, replay the live
        // shadow up to that event; if both are older, earlier sessions' monitors have already judged them.
        let later = rec.events.iter().rposition(|e| matches!(e, Ev::WriteRet { task, res, err: None } if task == w && res == r) || matches!(e, Ev::ReadRet { task, res, reader: Some(_), .. } if task == x && res == r));
        let legal_then = match later {
          None => true,
          Some(i) => { let mut sh = rec.shadow_before.clone(); for e in &rec.events[..i] { sh.apply(e); } sh.reaches(*x, *w) }
        };
        out.push((*x, *r, *w, legal_then));
      }
    }
  }
  out
}

fn dump_reaches(d: &shadow::Dump, a: u32, b: u32) -> bool {
  let mut seen = BTreeSet::new();
  let mut stack = vec![a];
  while let Some(x) = stack.pop() {
    if let Some(t) = d.tasks.get(&x) {
      for e in &t.out {
        if e.is_task_target() {
          if e.target == b { return true; }
          if seen.insert(e.target) { stack.push(e.target); }
        }
      }
    }
  }
  false
}

// ---------------------------------------------------------------------------------------------------------------
// C17: tracker stream nesting and agreement with the task-side log
// ---------------------------------------------------------------------------------------------------------------

fn end_of(m: TM) -> Option<TM> {
  Some(match m {
    TM::BuildStart => TM::BuildEnd,
    TM::RequireStart => TM::RequireEnd,
    TM::ReadStart => TM::ReadEnd,
    TM::WriteStart => TM::WriteEnd,
    TM::CheckTaskStart => TM::CheckTaskEnd,
    TM::CheckResourceStart => TM::CheckResourceEnd,
    TM::ExecuteStart => TM::ExecuteEnd,
    TM::SchedAffByTaskStart => TM::SchedAffByTaskEnd,
    TM::CheckTaskRequireTaskStart => TM::CheckTaskRequireTaskEnd,
    TM::SchedAffByResStart => TM::SchedAffByResEnd,
    TM::CheckTaskReadResStart => TM::CheckTaskReadResEnd,
    _ => return None,
  })
}
fn is_end(m: TM) -> bool {
  matches!(m, TM::BuildEnd | TM::RequireEnd | TM::ReadEnd | TM::WriteEnd | TM::CheckTaskEnd | TM::CheckResourceEnd | TM::ExecuteEnd
    | TM::SchedAffByTaskEnd | TM::CheckTaskRequireTaskEnd | TM::SchedAffByResEnd | TM::CheckTaskReadResEnd)
}

pub fn pass_tracker(rec: &SessionRec, seen_methods: &mut BTreeSet<TM>) -> Vec<Finding> {
  let mut out = Vec::new();
  let evs = &rec.events;
  let mut stack: Vec<(usize, &TrkEv)> = Vec::new();
  let mut n_exec_trk = 0usize;
  let mut n_exec_task = 0usize;
  for (i, ev) in evs.iter().enumerate() {
    match ev {
      Ev::Trk(t) => {
        seen_methods.insert(t.m);
        if t.m == TM::ExecuteStart { n_exec_trk += 1; }
        if end_of(t.m).is_some() {
          stack.push((i, t));
        } else if is_end(t.m) {
          match stack.pop() {
            None => out.push(f("C17", "end-without-start", i, format!("{:?}({}) with no unclosed start", t.m, t.subject))),
            Some((j, s)) => {
              let same_checker = s.checker.is_empty() || t.checker.is_empty() || s.checker == t.checker;
              let same_stamp = s.stamp.is_empty() || t.stamp.is_empty() || s.stamp == t.stamp;
              if end_of(s.m) != Some(t.m) || s.subject != t.subject || !same_checker || !same_stamp {
                out.push(f("C17", "mismatched-end", i, format!("{:?}({},{},{}) closes {:?}({},{},{}) opened at event {}", t.m, t.subject, t.checker, t.stamp, s.m, s.subject, s.checker, s.stamp, j)));
              }
            }
          }
        }
      }
      // Operations that the task-side log shows failed did not complete: their start is popped, no end is demanded.
      Ev::ReadRet { res, err: Some(_), .. } => {
        if let Some((_, s)) = stack.last() { if s.m == TM::ReadStart && s.subject == format!("R{}", res) { stack.pop(); } }
      }
      Ev::WriteRet { res, err: Some(_), .. } => {
        if let Some((_, s)) = stack.last() { if s.m == TM::WriteStart && s.subject == format!("R{}", res) { stack.pop(); } }
      }
      Ev::Abort { .. } => stack.clear(),
      Ev::ExecStart { task } => {
        n_exec_task += 1;
        match i.checked_sub(1).map(|j| &evs[j]) {
          Some(Ev::Trk(t)) if t.m == TM::ExecuteStart && t.subject == format!("T{}", task) => {}
          other => out.push(f("C17", "execution-not-announced", i, format!("T{} started executing but the preceding event is {:?}, not execute_start(T{})", task, other, task))),
        }
      }
      Ev::ExecEnd { task, out: o } => {
        match evs.get(i + 1) {
          Some(Ev::Trk(t)) if t.m == TM::ExecuteEnd && t.subject == format!("T{}", task) && t.extra == format!("{}", o) => {}
          other => out.push(f("C17", "execution-end-not-reported", i, format!("T{} finished with output {} but the next event is {:?}, not execute_end(T{}, {})", task, o, other, task, o))),
        }
      }
      Ev::ReqRet { task, target, out: o } => {
        match i.checked_sub(1).map(|j| &evs[j]) {
          Some(Ev::Trk(t)) if t.m == TM::RequireEnd && t.subject == format!("T{}", target) && t.extra == format!("{}", o) => {
            if let Some(Ev::OStamp { stamp, .. }) = i.checked_sub(2).map(|j| &evs[j]) {
              if t.stamp != format!("OSt({})", stamp) { out.push(f("C17", "require-end-stamp", i, format!("require_end(T{}) carries stamp {} but the checker produced {}", target, t.stamp, stamp))); }
            }
          }
          other => out.push(f("C17", "require-end-value", i, format!("T{} received {} from require(T{}) but the preceding event is {:?}, not require_end(T{}, .., {})", task, o, target, other, target, o))),
        }
      }
      Ev::RootRet { task, out: o } => {
        let a = i.checked_sub(1).map(|j| &evs[j]);
        let b = i.checked_sub(2).map(|j| &evs[j]);
        let ok = matches!(a, Some(Ev::Trk(t)) if t.m == TM::BuildEnd)
          && matches!(b, Some(Ev::Trk(t)) if t.m == TM::RequireEnd && t.subject == format!("T{}", task) && t.extra == format!("{}", o));
        if !ok { out.push(f("C17", "root-require-end-value", i, format!("Session::require(T{}) returned {} but the tracker saw {:?} then {:?}", task, o, b, a))); }
      }
      Ev::ReadRet { res, reader: Some(_), .. } => {
        match (i.checked_sub(1).map(|j| &evs[j]), i.checked_sub(2).map(|j| &evs[j])) {
          (Some(Ev::Trk(t)), Some(Ev::StampReader { stamp: Some(s), kind, .. })) if t.m == TM::ReadEnd && t.subject == format!("R{}", res) => {
            // (the unit-stamp variant of the checker, used for some Always reads, produces the stamp `()`)
            if t.stamp != format!("St({})", s) && !(*kind == crate::log::Kind::Always && t.stamp == "()") { out.push(f("C17", "read-end-stamp", i, format!("read_end(R{}) carries stamp {} but the checker produced {}", res, t.stamp, s))); }
          }
          (a, _) => out.push(f("C17", "read-end-missing", i, format!("read of R{} returned but the preceding event is {:?}, not read_end", res, a))),
        }
      }
      Ev::WriteRet { res, err: None, .. } => {
        match (i.checked_sub(1).map(|j| &evs[j]), i.checked_sub(2).map(|j| &evs[j])) {
          (Some(Ev::Trk(t)), Some(Ev::StampWriter { stamp: Some(s), .. } | Ev::Stamp { stamp: Some(s), .. })) if t.m == TM::WriteEnd && t.subject == format!("R{}", res) => {
            if t.stamp != format!("St({})", s) { out.push(f("C17", "write-end-stamp", i, format!("write_end(R{}) carries stamp {} but the checker produced {}", res, t.stamp, s))); }
          }
          (a, _) => out.push(f("C17", "write-end-missing", i, format!("write of R{} returned but the preceding event is {:?}, not write_end", res, a))),
        }
      }
      // verdicts reported to the tracker must be the verdicts the checker gave
      Ev::Check { verdict, .. } => {
        if let Some(Ev::Trk(t)) = evs.get(i + 1) {
          if matches!(t.m, TM::CheckResourceEnd | TM::CheckTaskReadResEnd) {
            let ok = match verdict { Verdict::Consistent => t.extra == "consistent", Verdict::Inconsistent => t.extra.starts_with("inconsistent("), Verdict::Err(n) => t.extra == format!("error(ChkErr#{})", n) };
            if !ok { out.push(f("C17", "check-verdict-misreported", i, format!("checker verdict {:?} reported to the tracker as {}", verdict, t.extra))); }
          } else { out.push(f("C17", "check-end-missing", i, format!("resource check not followed by its end event but by {:?}", t))); }
        } else { out.push(f("C17", "check-end-missing", i, "resource check not followed by a tracker event".into())); }
      }
      Ev::OCheck { consistent, .. } => {
        if let Some(Ev::Trk(t)) = evs.get(i + 1) {
          if matches!(t.m, TM::CheckTaskEnd | TM::CheckTaskRequireTaskEnd) {
            let ok = if *consistent { t.extra == "consistent" } else { t.extra.starts_with("inconsistent(") };
            if !ok { out.push(f("C17", "check-verdict-misreported", i, format!("output checker verdict consistent={} reported to the tracker as {}", consistent, t.extra))); }
          } else { out.push(f("C17", "check-end-missing", i, format!("output check not followed by its end event but by {:?}", t))); }
        } else { out.push(f("C17", "check-end-missing", i, "output check not followed by a tracker event".into())); }
      }
      Ev::SessionClose => {
        if rec.aborted.is_none() && !stack.is_empty() {
          let (j, s) = stack[stack.len() - 1];
          out.push(f("C17", "start-without-end", j, format!("{:?}({}) was never closed although the build returned", s.m, s.subject)));
        }
      }
      _ => {}
    }
  }
  if n_exec_trk != n_exec_task && rec.aborted.is_none() {
    out.push(f("C17", "execution-count", 0, format!("tracker saw {} execute_start events, tasks really started {} times", n_exec_trk, n_exec_task)));
  }
  out
}

// ---------------------------------------------------------------------------------------------------------------
// Per-owner validation sequences (top-down): C02 order / prefix / once, C09 verdict use, C18
// ---------------------------------------------------------------------------------------------------------------

#[derive(Clone, Debug)]
struct VEv { at: usize, is_task: bool, target: u32, consistent: bool, err: Option<u32> }

/// Applies to the top-down part of a session: events after `from` (0 for a pure top-down session, index of
/// BuUpdateRet for the in-session requires after a bottom-up build).
pub fn pass_topdown_validation(rec: &SessionRec, from: usize, sh_at_from: &Shadow) -> Vec<Finding> {
  let mut out = Vec::new();
  let evs = &rec.events;
  let n = sh_at_from.tasks.len();
  let mut seqs: Vec<Vec<VEv>> = vec![Vec::new(); n];
  let mut exec_at: Vec<Vec<usize>> = vec![Vec::new(); n];
  for (i, ev) in evs.iter().enumerate().skip(from) {
    match ev {
      Ev::Check { owner, res, verdict, .. } => seqs[*owner as usize].push(VEv { at: i, is_task: false, target: *res, consistent: *verdict == Verdict::Consistent, err: if let Verdict::Err(n) = verdict { Some(*n) } else { None } }),
      Ev::OCheck { owner, target, consistent, .. } => seqs[*owner as usize].push(VEv { at: i, is_task: true, target: *target, consistent: *consistent, err: None }),
      Ev::ExecStart { task } => exec_at[*task as usize].push(i),
      _ => {}
    }
  }
  let aborted_at = evs.iter().position(|e| matches!(e, Ev::Abort { .. }));
  for t in 0..n {
    // at most once per session
    if exec_at[t].len() > 1 {
      out.push(f("C02", "executed-twice-in-session", exec_at[t][1], format!("T{} was executed {} times in one session", t, exec_at[t].len())));
    }
    let ts = &sh_at_from.tasks[t];
    let first_exec = exec_at[t].first().copied();
    let seq = &seqs[t];
    if ts.status != Status::Completed {
      // new or aborted task: nothing to validate
      continue;
    }
    let (decls, _) = ts.collapsed();
    // justification
    if let Some(e) = first_exec {
      let justified = seq.iter().any(|v| v.at < e && !v.consistent);
      if !justified {
        out.push(f("C02", "unjustified-execution", e, format!("T{} had completed before and was re-executed although none of its recorded dependencies was reported inconsistent by its checker in this session", t)));
        out.push(f("C09", "executed-without-checker-verdict", e, format!("T{} was re-executed although no checker of its recorded dependencies reported an inconsistency: something other than the dependencies' own checkers decided", t)));
      }
    }
    // validation happens once, before the execution, in declaration order, stopping at the first inconsistency
    if let Some(e) = first_exec {
      if let Some(v) = seq.iter().find(|v| v.at > e) {
        // checks by owner t after t executed in this session: t's *new* dependencies were validated again
        out.push(f("C02", "validated-after-execution", v.at, format!("a dependency of T{} was checked after T{} had already been executed in this session", t, t)));
      }
    }
    let pre: Vec<&VEv> = seq.iter().filter(|v| first_exec.map_or(true, |e| v.at < e)).collect();
    for (k, v) in pre.iter().enumerate() {
      match decls.get(k) {
        None => { out.push(f("C02", "validated-twice", v.at, format!("T{} has {} recorded dependencies but check #{} of them was performed in one session (target {}{})", t, decls.len(), k + 1, if v.is_task { "T" } else { "R" }, v.target))); break; }
        Some(d) => {
          if d.is_task_target() != v.is_task || d.target != v.target {
            out.push(f("C02", "validation-order", v.at, format!("T{}'s dependencies were created in the order [{}] but check #{} was on {}{}", t, render_decls(&decls), k + 1, if v.is_task { "T" } else { "R" }, v.target)));
            break;
          }
        }
      }
      if !v.consistent {
        if k + 1 != pre.len() {
          out.push(f("C02", "validation-continues-after-inconsistency", pre[k + 1].at, format!("T{}: dependency #{} was inconsistent but validation went on to dependency #{}", t, k + 1, k + 2)));
          break;
        }
        // C09 / C18: an inconsistent (or failing) dependency always leads to re-execution when its owner is validated
        let next = next_nt(evs, v.at).map(|j| &evs[j]);
        let reexec = matches!(next, Some(Ev::ExecStart { task }) if *task as usize == t);
        if !reexec && aborted_at.map_or(true, |a| a > v.at + 4) {
          let prop = if v.err.is_some() { "C18" } else { "C09" };
          out.push(f(prop, "inconsistent-but-not-executed", v.at, format!("dependency #{} of T{} was reported {} by its checker but T{} was not re-executed (next event: {:?})", k + 1, t, if v.err.is_some() { "failing" } else { "inconsistent" }, t, next)));
        }
      }
    }
    if let Some(last) = pre.last() {
      if last.consistent && pre.len() < decls.len() && aborted_at.is_none() {
        out.push(f("C02", "validation-stopped-early", last.at, format!("T{}: only {} of {} recorded dependencies were checked and all were consistent", t, pre.len(), decls.len())));
        if first_exec.is_none() {
          out.push(f("C09", "reused-without-asking-the-checker", last.at, format!("T{} was reused although dependency #{} ({}) was never submitted to its own checker: its consistency was decided by something else", t, pre.len() + 1, decls[pre.len()].render())));
        }
      }
      if last.consistent && pre.len() == decls.len() {
        if let Some(e) = first_exec {
          out.push(f("C09", "consistent-but-executed", e, format!("all {} recorded dependencies of T{} were reported consistent by their checkers but T{} was executed", decls.len(), t, t)));
        }
      }
    }
  }
  out
}

fn render_decls(d: &[Decl]) -> String { d.iter().map(|x| format!("{}{}", if x.is_task_target() { "T" } else { "R" }, x.target)).collect::<Vec<_>>().join(",") }

// ---------------------------------------------------------------------------------------------------------------
// C18: every checker error is reported exactly once
// ---------------------------------------------------------------------------------------------------------------

pub fn pass_errors(rec: &SessionRec) -> Vec<Finding> {
  let mut out = Vec::new();
  let injected: Vec<(usize, u32)> = rec.events.iter().enumerate().filter_map(|(i, e)| if let Ev::Check { verdict: Verdict::Err(n), .. } = e { Some((i, *n)) } else { None }).collect();
  if let Some(msg) = &rec.aborted {
    if !injected.is_empty() && !msg.contains(crate::cell::INJECTED_PANIC_MARKER) && !msg.contains(crate::prog::USER_PANIC_MARKER) {
      out.push(f("C18", "abort-with-failing-checker", injected[0].0, format!("a checker returned an error during validation and the build aborted: {}", msg)));
    }
    return out;
  }
  for (i, n) in &injected {
    let name = format!("ChkErr#{}", n);
    let c = rec.dep_errors.iter().filter(|e| **e == name).count();
    if c != 1 {
      out.push(f("C18", "error-not-reported-once", *i, format!("{} was returned by a checker during validation and appears {} times in dependency_check_errors {:?}", name, c, rec.dep_errors)));
    }
  }
  for e in &rec.dep_errors {
    if !injected.iter().any(|(_, n)| *e == format!("ChkErr#{}", n)) {
      out.push(f("C18", "spurious-error-reported", 0, format!("dependency_check_errors contains {} which no checker returned in this session", e)));
    }
  }
  out
}

// ---------------------------------------------------------------------------------------------------------------
// C04: bottom-up build (window BuCreate .. BuUpdateRet)
// ---------------------------------------------------------------------------------------------------------------

pub struct BuStats { pub max_queue: usize, pub executed: usize, pub scheduled: usize, pub nested_now: usize, pub cutoffs: usize }

pub fn pass_bottom_up(rec: &SessionRec, stats: &mut BuStats) -> Vec<Finding> {
  let mut out = Vec::new();
  let evs = &rec.events;
  // (a build that was abandoned before its update leaves nothing to judge: the last one created counts)
  let Some(start) = evs.iter().rposition(|e| matches!(e, Ev::BuCreate)) else { return out; };
  let end = evs.iter().position(|e| matches!(e, Ev::BuUpdateRet)).unwrap_or(evs.len());
  let mut sh = rec.shadow_before.clone();
  for e in &evs[..start] { sh.apply(e); }
  let mut scheduled: BTreeSet<u32> = BTreeSet::new();
  let mut executed: BTreeMap<u32, usize> = BTreeMap::new();
  let mut justified: BTreeSet<u32> = BTreeSet::new();
  let mut failed_check_owners: BTreeMap<u32, usize> = BTreeMap::new();
  let mut depth = 0usize;
  for i in start..end {
    let ev = &evs[i];
    match ev {
      Ev::Check { owner, verdict, .. } => {
        if *verdict != Verdict::Consistent { if !scheduled.contains(owner) { expect_schedule_task(evs, i, *owner, &mut out); } scheduled.insert(*owner); justified.insert(*owner); }
        if matches!(verdict, Verdict::Err(_)) && executed.get(owner).is_none() { failed_check_owners.insert(*owner, i); }
      }
      Ev::OCheck { owner, consistent, .. } => {
        if !*consistent { if !scheduled.contains(owner) { expect_schedule_task(evs, i, *owner, &mut out); } scheduled.insert(*owner); justified.insert(*owner); } else { stats.cutoffs += 1; }
      }
      Ev::BuSchedule { res } => {
        // C09: the build is told that `res` changed. Whether a task depending on it is affected is for that
        // dependency's own checker to say: every completed task with a recorded read / write of `res` that is not
        // already scheduled must have this dependency checked during the call.
        let stop = (i + 1..end).find(|j| matches!(evs[*j], Ev::BuSchedule { .. } | Ev::BuUpdateCall | Ev::BuAbandon)).unwrap_or(end);
        for (x, ts) in sh.tasks.iter().enumerate() {
          let x = x as u32;
          if ts.status != Status::Completed || scheduled.contains(&x) { continue; }
          let (decls, _) = ts.collapsed();
          if !decls.iter().any(|d| !d.is_task_target() && d.target == *res) { continue; }
          let checked = evs[i + 1..stop].iter().any(|e| matches!(e, Ev::Check { owner, res: r, .. } if *owner == x && r == res));
          if !checked {
            out.push(f("C09", "dependent-of-reported-resource-not-checked", i, format!("the bottom-up build was told that R{} changed; T{} has a recorded dependency on it and was not scheduled yet, but its checker was not asked", res, x)));
          }
        }
      }
      Ev::Trk(t) if t.m == TM::ScheduleTask => {
        // must be explained by the verdict just before it
        let ok = match prev_nt(evs, i).map(|j| &evs[j]) {
          Some(Ev::Check { owner, verdict, .. }) => *verdict != Verdict::Consistent && t.subject == format!("T{}", owner),
          Some(Ev::OCheck { owner, consistent, .. }) => !*consistent && t.subject == format!("T{}", owner),
          _ => false,
        };
        if !ok { out.push(f("C04", "scheduled-without-inconsistency", i, format!("{} was scheduled although the preceding check did not report one of its dependencies inconsistent", t.subject))); }
      }
      Ev::ExecStart { task } => {
        stats.max_queue = stats.max_queue.max(scheduled.len());
        let c = executed.entry(*task).or_insert(0);
        *c += 1;
        if *c > 1 { out.push(f("C04", "executed-twice-in-build", i, format!("T{} was executed {} times in one bottom-up build", task, c))); }
        let ts = &sh.tasks[*task as usize];
        if ts.status == Status::Completed && !justified.contains(task) {
          out.push(f("C04", "unjustified-execution", i, format!("T{} was executed in a bottom-up build although it had completed before and no check reported one of its dependencies inconsistent", task)));
          out.push(f("C09", "executed-without-checker-verdict", i, format!("T{} was re-executed by a bottom-up build although no checker of its recorded dependencies reported an inconsistency: something other than the dependencies' own checkers decided", task)));
        }
        if depth > 0 && scheduled.contains(task) { stats.nested_now += 1; }
        for y in scheduled.iter() {
          if y != task && executed.get(y).is_none() && sh.reaches(*task, *y) {
            out.push(f("C04", "executed-before-scheduled-dependency", i, format!("T{} was executed while T{}, which it (transitively) requires, was scheduled and not yet executed (scheduled: {:?})", task, y, scheduled)));
          }
        }
        scheduled.remove(task);
        failed_check_owners.remove(task);
        depth += 1;
      }
      Ev::ExecEnd { .. } => { depth = depth.saturating_sub(1); }
      _ => {}
    }
    sh.apply(ev);
  }
  stats.executed += executed.len();
  stats.scheduled += justified.len();
  if rec.aborted.is_none() && end < evs.len() {
    for y in &scheduled {
      out.push(f("C04", "scheduled-never-executed", end, format!("T{} was found affected (a dependency was reported inconsistent) but was not executed before the bottom-up build returned", y)));
    }
    for (y, at) in &failed_check_owners {
      out.push(f("C18", "failing-check-but-not-executed", *at, format!("a checker of T{} returned an error during bottom-up scheduling but T{} was not executed in that build", y, y)));
    }
  }
  out
}

fn expect_schedule_task(evs: &[Ev], i: usize, owner: u32, out: &mut Vec<Finding>) {
  // the end-of-check tracker event, then schedule_task(owner)
  let ok = evs[i + 1..].iter().take_while(|e| is_trk(e)).any(|e| matches!(e, Ev::Trk(t) if t.m == TM::ScheduleTask && t.subject == format!("T{}", owner)));
  if !ok { out.push(f("C17", "schedule-not-reported", i, format!("T{} was found affected but no schedule_task(T{}) followed", owner, owner))); }
}

// ---------------------------------------------------------------------------------------------------------------
// C01: outputs and written resources vs Ref
// ---------------------------------------------------------------------------------------------------------------

/// Runs `Ref` for the session's roots on the pre-session state, then additionally for every task pie executed.
pub fn ref_for_session<'p>(p: &'p Program, rec: &SessionRec) -> (RefRun<'p>, Vec<Option<u32>>, BTreeSet<u32>) {
  let mut r = RefRun::new(p, &rec.pre_world);
  let mut outs = Vec::new();
  for root in &rec.requested_roots { outs.push(r.eval(*root)); }
  let roots_only: BTreeSet<u32> = (0..p.n_tasks() as u32).filter(|t| r.executed(*t)).collect();
  for e in &rec.events { if let Ev::ExecStart { task } = e { if r.viol.is_none() { r.eval(*task); } } }
  (r, outs, roots_only)
}

pub fn check_vs_ref(p: &Program, rec: &SessionRec, r: &RefRun<'_>, ref_outs: &[Option<u32>]) -> Vec<Finding> {
  let mut out = Vec::new();
  let at = rec.events.len().saturating_sub(1);
  for (k, (root, got)) in rec.roots.iter().enumerate() {
    if let Some(Some(want)) = ref_outs.get(k) {
      if got != want {
        let i = rec.events.iter().position(|e| matches!(e, Ev::RootRet { task, out } if task == root && out == got)).unwrap_or(at);
        out.push(f("C01", "stale-output", i, format!("require(T{}) returned {} but executing the tasks from scratch on the same state gives {}", root, got, want)));
      }
    }
  }
  if rec.aborted.is_none() && r.viol.is_none() {
    for res in 0..p.n_res {
      let (a, b) = (rec.post_world[res], r.state[res]);
      let same = match r.writer_of[res] {
        Some(w) => { let k: Kind = p.tasks[w as usize].rkind[res]; k.abs(a) == k.abs(b) }
        None => a == b,
      };
      if !same {
        out.push(f("C01", "stale-resource", at, format!("after the session R{} holds {:?} but executing the same tasks from scratch leaves {:?} (writer in the from-scratch build: {:?})", res, a, b, r.writer_of[res])));
      }
    }
  }
  out
}
