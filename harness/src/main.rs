//! pv — runtime monitors for Gohla/pie. `pv run <PROPERTY> <tier> <seed> <out.json> [key=value ...]`
//!
//! The key=value arguments select a single case for replay (they are copied from the `case` object of a replay file
//! by /verif/check).

#![allow(unused_mut, dead_code, unused_variables)]

mod util;
mod report;
mod graphmon;
mod log;
mod cell;
mod prog;
mod refm;
mod trk;
mod shadow;
mod driver;
mod gen;
mod monitors;
mod hist;
mod wf;
mod c17x;
mod props;
mod c16;
mod c16dir;
mod c18x;
mod fwrite;
mod c12;
mod c15;
mod c14;
mod c13;
mod fileleg;

use std::collections::BTreeMap;
use std::time::Instant;

use report::Report;
use util::J;

pub struct Args {
  pub property: String,
  pub tier: String,
  pub seed: u64,
  pub out: String,
  pub kv: BTreeMap<String, String>,
}

impl Args {
  pub fn get(&self, k: &str) -> Option<&str> { self.kv.get(k).map(|s| s.as_str()) }
  pub fn get_u64(&self, k: &str) -> Option<u64> { self.get(k).and_then(|s| s.parse().ok()) }
}

fn main() {
  let argv: Vec<String> = std::env::args().collect();
  if argv.len() < 6 || argv[1] != "run" {
    eprintln!("usage: pv run <PROPERTY> <quick|thorough|miri> <seed> <out.json> [key=value ...]");
    std::process::exit(2);
  }
  let mut kv = BTreeMap::new();
  for a in &argv[6..] {
    if let Some((k, v)) = a.split_once('=') { kv.insert(k.to_string(), v.to_string()); }
  }
  let args = Args { property: argv[2].clone(), tier: argv[3].clone(), seed: argv[4].parse().unwrap_or(0), out: argv[5].clone(), kv };
  util::install_quiet_panic_hook();
  let t0 = Instant::now();
  let mut report = dispatch(&args);
  if args.tier == "miri" { report.inconclusive.clear(); }
  let wall = t0.elapsed().as_secs_f64();
  let j = report.to_json()
    .with("property", J::s(args.property.clone()))
    .with("tier", J::s(args.tier.clone()))
    .with("seed", J::from(args.seed))
    .with("wall_s", J::F(wall));
  if args.out == "-" {
    println!("{}", j.render());
  } else {
    std::fs::write(&args.out, j.render()).expect("write result file");
  }
  eprintln!("pv {} {} seed={} evaluations={} distinct_nontrivial={} alarms={} wall={:.1}s",
    args.property, args.tier, args.seed, report.evaluations, report.nontrivial.len(), report.alarm_total, wall);
}

fn dispatch(args: &Args) -> Report {
  let replay = match (args.get("mode"), args.get_u64("case")) {
    (Some(m), Some(c)) if args.get("sub") == Some("graph") || args.get("sub").is_none() => Some((m.to_string(), c)),
    _ => None,
  };
  match args.property.as_str() {
    "C10" => graphmon::run("C10", &args.tier, args.seed, replay),
    "C11" => graphmon::run("C11", &args.tier, args.seed, replay),
    "C12" => c12::run(&args.tier, args.seed, if args.get("sub") == Some("pairs") { args.get_u64("case") } else { None }),
    "C13" => c13::run(&args.tier, args.seed, if args.get("sub") == Some("files") { args.get_u64("case") } else { None }),
    "C14" => c14::run(&args.tier, args.seed, if args.get("sub") == Some("map") { args.get_u64("case") } else { None }),
    "C15" => c15::run(&args.tier, args.seed, if args.get("sub") == Some("identity") { args.get_u64("case") } else { None }),
    "C16" => {
      let child = match (args.get_u64("child_from"), args.get_u64("child_to")) { (Some(a), Some(b)) => Some((a, b)), _ => None };
      let rp = if args.get("sub") == Some("determinism") { args.get_u64("case") } else { None };
      if args.get("sub") == Some("dirs") { return c16dir::run(&args.tier, args.seed, args.get_u64("case")); }
      let mut r = c16::run(&args.tier, args.seed, rp, child);
      if child.is_none() && rp.is_none() && args.tier != "miri" {
        r.merge(c16dir::run(&args.tier, args.seed, None));
        r.rule.push_str(" File-backed part: histories over pie's real PathBuf resource in which tasks list two directories (dependency on the listing through HashChecker) and read up to 6 files, with files created, rewritten and deleted between top-down and bottom-up builds; each history is replayed twice on fresh Pie instances over a re-created directory at the same path, and the logs of executions and outputs must be identical.");
        r.floor("directory histories replayed", r.get("directory_history_replays") >= 1000);
      }
      r
    }
    _ => props::run(args),
  }
}
