//! pv — runtime monitors for Gohla/pie. `pv run <PROPERTY> <tier> <seed> <out.json> [key=value ...]`
//!
//! The key=value arguments select a single case for replay (they are copied from the `case` object of a replay file
//! by /verif/check).

mod util;
mod report;
mod graphmon;
mod log;
mod cell;
mod prog;
mod refm;
mod trk;
mod shadow;
mod driver;
mod gen;
mod monitors;
mod hist;
mod wf;

use std::collections::BTreeMap;
use std::time::Instant;

use report::Report;
use util::J;

pub struct Args {
  pub property: String,
  pub tier: String,
  pub seed: u64,
  pub out: String,
  pub kv: BTreeMap<String, String>,
}

impl Args {
  pub fn get(&self, k: &str) -> Option<&str> { self.kv.get(k).map(|s| s.as_str()) }
  pub fn get_u64(&self, k: &str) -> Option<u64> { self.get(k).and_then(|s| s.parse().ok()) }
}

fn main() {
  let argv: Vec<String> = std::env::args().collect();
  if argv.len() < 6 || argv[1] != "run" {
    eprintln!("usage: pv run <PROPERTY> <quick|thorough|miri> <seed> <out.json> [key=value ...]");
    std::process::exit(2);
  }
  let mut kv = BTreeMap::new();
  for a in &argv[6..] {
    if let Some((k, v)) = a.split_once('=') { kv.insert(k.to_string(), v.to_string()); }
  }
  let args = Args { property: argv[2].clone(), tier: argv[3].clone(), seed: argv[4].parse().unwrap_or(0), out: argv[5].clone(), kv };
  util::install_quiet_panic_hook();
  let t0 = Instant::now();
  let report = dispatch(&args);
  let wall = t0.elapsed().as_secs_f64();
  let j = report.to_json()
    .with("property", J::s(args.property.clone()))
    .with("tier", J::s(args.tier.clone()))
    .with("seed", J::from(args.seed))
    .with("wall_s", J::F(wall));
  if args.out == "-" {
    println!("{}", j.render());
  } else {
    std::fs::write(&args.out, j.render()).expect("write result file");
  }
  eprintln!("pv {} {} seed={} evaluations={} distinct_nontrivial={} alarms={} wall={:.1}s",
    args.property, args.tier, args.seed, report.evaluations, report.nontrivial.len(), report.alarm_total, wall);
}

fn dispatch(args: &Args) -> Report {
  let replay = match (args.get("mode"), args.get_u64("case")) {
    (Some(m), Some(c)) => Some((m.to_string(), c)),
    _ => None,
  };
  let class_replay = match (args.get("sub"), args.get_u64("case")) {
    (Some(m), Some(c)) => Some((m.to_string(), c)),
    _ => None,
  };
  let scale: u64 = (if args.tier == "thorough" { 40 } else { 1 }) * util::env_u64("PV_SCALE", 1);
  use wf::ClassPlan as CP;
  match args.property.as_str() {
    "C10" => graphmon::run("C10", &args.tier, args.seed, replay),
    "C11" => graphmon::run("C11", &args.tier, args.seed, replay),
    "C01" => wf::run_classes("C01", &args.tier, args.seed, &[CP { name: "td-exact", n: 1500 * scale }, CP { name: "td-mixed", n: 2500 * scale }], class_replay),
    "C02" => wf::run_classes("C02", &args.tier, args.seed, &[CP { name: "td-exact", n: 2000 * scale }, CP { name: "td-mixed", n: 2000 * scale }], class_replay),
    "C03" => wf::run_classes("C03", &args.tier, args.seed, &[CP { name: "pure-exact", n: 1500 * scale }, CP { name: "pure-mixed", n: 2500 * scale }, CP { name: "mixed-any", n: 2000 * scale }], class_replay),
    "C04" => wf::run_classes("C04", &args.tier, args.seed, &[CP { name: "pure-exact", n: 2000 * scale }, CP { name: "pure-mixed", n: 3000 * scale }], class_replay),
    "C08" => wf::run_classes("C08", &args.tier, args.seed, &[CP { name: "td-any", n: 2000 * scale }, CP { name: "mixed-any", n: 2000 * scale }, CP { name: "mixed-multi", n: 1500 * scale }], class_replay),
    "C09" => wf::run_classes("C09", &args.tier, args.seed, &[CP { name: "td-mixed", n: 2500 * scale }, CP { name: "pure-mixed", n: 2500 * scale }], class_replay),
    "C17" => wf::run_classes("C17", &args.tier, args.seed, &[CP { name: "mixed-any", n: 2500 * scale }, CP { name: "mixed-faulty", n: 1500 * scale }, CP { name: "mixed-fc", n: 1000 * scale }], class_replay),
    "C18" => wf::run_classes("C18", &args.tier, args.seed, &[CP { name: "td-fc-any", n: 2500 * scale }, CP { name: "pure-fc-any", n: 2500 * scale }], class_replay),
    "C20" => wf::run_classes("C20", &args.tier, args.seed, &[CP { name: "td-any", n: 2000 * scale }, CP { name: "pure-any", n: 2000 * scale }, CP { name: "mixed-any", n: 1000 * scale }], class_replay),
    other => {
      let mut r = Report::new();
      r.inconclusive.push(format!("no monitor for property {}", other));
      r
    }
  }
}
