//! C16: build behaviour is a deterministic function of the history. The complete event log (all five observers) of a
//! history is reduced to a digest; the same history is replayed in the same process (with unrelated instances in
//! between) and in separate child processes (fresh hash seeds, different addresses); all digests must be equal.

use std::collections::BTreeMap;
use std::rc::Rc;

use crate::driver::Driver;
use crate::gen::{self, Case, GenOpts, HistClass, Step};
use crate::log::{self, Ev};
use crate::report::{Alarm, Report};
use crate::trk::log_trk;
use crate::util::{self, Fnv, Rng, J};

pub fn make_case(seed: u64, i: u64) -> Case {
  let mut rng = Rng::derive(seed ^ 0xC16, i);
  // wide programs: many dependencies per task, many tasks, so that an unordered container would show
  let o = GenOpts { max_tasks: 10, exact_only: rng.chance(1, 2), max_ops: 8, max_src: 3, max_gen: 3 };
  let prog = loop {
    let p = gen::gen_program(&mut rng, &o);
    if p.n_tasks() >= 5 { break p; }
  };
  let init = gen::gen_init(&mut rng, &prog);
  let hc = if rng.chance(1, 3) { HistClass::TopDown } else { HistClass::Mixed };
  let mut steps = gen::gen_history(&mut rng, &prog, hc, 8);
  // make the first build require everything so that later bottom-up builds have many affected tasks
  let all: Vec<u32> = (0..prog.n_tasks() as u32).collect();
  steps.insert(0, Step::TopDown(all));
  // one history in four contains builds that abort (a panic at the k-th task operation of a later build)
  if rng.chance(1, 4) { crashy(&mut rng, &mut steps); }
  Case { prog, init, steps }
}

/// Inserts crash points in front of some builds after the first one (bottom-up builds preferred: an update that is
/// aborted with tasks still scheduled).
fn crashy(rng: &mut Rng, steps: &mut Vec<Step>) {
  let mut k = 1;
  while k < steps.len() {
    let hit = match &steps[k] { Step::BottomUp(_) => rng.chance(2, 3), Step::TopDown(_) => rng.chance(1, 4), _ => false };
    if hit { steps.insert(k, Step::PanicAt(rng.range(1, 6) as u64)); k += 1; }
    k += 1;
  }
}

/// An unrelated history whose bottom-up builds abort: run between two replays, on the same thread.
pub fn noisy_neighbour(seed: u64, i: u64) -> Case {
  let mut c = make_case(seed ^ 0x4E01_5E, i);
  let mut rng = Rng::derive(seed ^ 0x4E01_5E ^ 1, i);
  c.steps.retain(|s| !matches!(s, Step::PanicAt(_)));
  let mut k = 1;
  while k < c.steps.len() {
    if matches!(&c.steps[k], Step::BottomUp(_)) { c.steps.insert(k, Step::PanicAt(rng.range(1, 4) as u64)); k += 1; }
    k += 1;
  }
  c
}

/// Runs the case and returns (digest of everything, per-session digests, number of events, max tasks scheduled).
pub fn digest_case(case: &Case, keep_events: bool) -> (u64, Vec<u64>, usize, Vec<Ev>) {
  log::clear();
  crate::cell::faults_reset();
  let prog = Rc::new(case.prog.clone());
  let mut d = Driver::new(prog.clone(), &case.init, log_trk());
  let mut all = Fnv::default();
  let mut per = Vec::new();
  let mut n = 0usize;
  let mut kept = Vec::new();
  for st in &case.steps {
    let rec = match st {
      Step::Set(r, v) => { d.set(*r, *v); continue; }
      Step::Arm(o, r, on) => { d.arm(*o, *r, *on); continue; }
      Step::PanicAt(k) | Step::PanicAtAny(k) => { crate::cell::FAULTS.with(|f| f.borrow_mut().panic_at = Some(*k)); continue; }
      Step::TopDown(roots) => d.session(None, roots),
      Step::BottomUp(roots) => { let ch: Vec<u32> = d.pending.iter().copied().collect(); let r = d.session(Some(ch), roots); d.pending.clear(); r }
    };
    crate::cell::FAULTS.with(|f| f.borrow_mut().panic_at = None);
    let dg = log::digest(&rec.events);
    let mut h = Fnv::default();
    h.u64(dg);
    h.str(&format!("{:?}{:?}{:?}", rec.roots, rec.post_world, rec.aborted));
    per.push(h.0);
    all.u64(h.0);
    n += rec.events.len();
    if keep_events { kept.extend(rec.events); }
  }
  (all.0, per, n, kept)
}

fn first_difference(a: &[Ev], b: &[Ev]) -> String {
  for (i, (x, y)) in a.iter().zip(b.iter()).enumerate() {
    if x != y { return format!("event {}: {:?} vs {:?}", i, x, y); }
  }
  format!("lengths {} vs {}", a.len(), b.len())
}

pub fn run(tier: &str, seed: u64, replay: Option<u64>, child_range: Option<(u64, u64)>) -> Report {
  let scale: u64 = (if tier == "thorough" { 30 } else { 1 }) * util::env_u64("PV_SCALE", 1);
  let n: u64 = if tier == "miri" { 1 } else { 12_000 * scale };
  let mut total = Report::new();
  // ---- child mode: print digests of a range of cases, nothing else
  if let Some((a, b)) = child_range {
    let mut out = String::new();
    for i in a..b {
      let case = make_case(seed, i);
      let (d, _, _, _) = digest_case(&case, false);
      out.push_str(&format!("D {} {}\n", i, d));
    }
    print!("{}", out);
    total.evaluations = b - a;
    return total;
  }
  let alarm = |rep: &mut Report, i: u64, sig: &str, msg: String, case: &Case| {
    rep.alarm(Alarm {
      property: "C16", signature: sig.into(), summary: format!("[case {}] {}", i, msg),
      case: J::obj().with("sub", J::s("determinism")).with("case", J::from(i)).with("seed", J::from(seed)),
      detail: case.to_json().with("message", J::s(msg)),
    });
  };
  // ---- in-process replays
  let range: Vec<u64> = match replay { Some(c) => vec![c], None => (0..n).collect() };
  let parts = util::parallel(range.len() as u64, if tier == "miri" { 1 } else { util::threads() }, 64, || (Report::new(), BTreeMap::<u64, u64>::new()), |k, acc: &mut (Report, BTreeMap<u64, u64>)| {
    let i = range[k as usize];
    let (rep, digests) = acc;
    let case = make_case(seed, i);
    let (d1, per1, n1, _) = digest_case(&case, false);
    // unrelated instances in between
    if tier != "miri" {
      let other = make_case(seed ^ 0x5EED, i + 1);
      let _ = digest_case(&other, false);
      let _ = digest_case(&make_case(seed ^ 0x5EED5, i + 2), false);
      // ... and one whose bottom-up builds are aborted with tasks still scheduled
      let _ = digest_case(&noisy_neighbour(seed, i), false);
    }
    let (d2, per2, _, _) = digest_case(&case, false);
    rep.evaluations += 1;
    rep.add("in_process_replays", 1);
    rep.add("events_digested", n1 as u64);
    rep.max("max_sessions", per1.len() as u64);
    if n1 > 200 { rep.nontrivial(case.digest()); }
    rep.sample(|| case.to_json());
    digests.insert(i, d1);
    if d1 != d2 {
      let s = per1.iter().zip(per2.iter()).position(|(a, b)| a != b).unwrap_or(0);
      let (_, _, _, e1) = digest_case(&case, true);
      let (_, _, _, e2) = digest_case(&case, true);
      alarm(rep, i, "replay-differs-in-process", format!("two replays of the same history in one process differ from build #{} on; first difference (of a further pair of replays): {}", s, first_difference(&e1, &e2)), &case);
    }
    rep.alarm_total < 20
  });
  let mut digests: BTreeMap<u64, u64> = BTreeMap::new();
  for (r, d) in parts { total.merge(r); digests.extend(d); }
  if tier == "miri" {
    for (i, d) in &digests { total.seen("digests", format!("{}:{}", i, d)); }
    return total;
  }
  // ---- cross-process replays
  let n_children: u64 = if replay.is_some() { 2 } else { 4 };
  let exe = std::env::current_exe().expect("current_exe");
  let (lo, hi) = match replay { Some(c) => (c, c + 1), None => (0, n) };
  let mut children = Vec::new();
  for _ in 0..n_children {
    // every child replays the whole range: each one is an independent process with its own hash seeds and addresses
    let threads_per_child = 4u64;
    let chunk = (hi - lo + threads_per_child - 1) / threads_per_child;
    for t in 0..threads_per_child {
      let a = lo + t * chunk;
      let b = (a + chunk).min(hi);
      if a >= b { continue; }
      let c = std::process::Command::new(&exe)
        .args(["run", "C16", tier, &seed.to_string(), "/dev/null", &format!("child_from={}", a), &format!("child_to={}", b)])
        .stdout(std::process::Stdio::piped()).stderr(std::process::Stdio::null()).spawn();
      match c { Ok(c) => children.push(c), Err(e) => total.inconclusive.push(format!("cannot spawn child process: {}", e)) }
    }
  }
  let mut compared = 0u64;
  let mut processes = 0u64;
  for c in children {
    let out = match c.wait_with_output() { Ok(o) => o, Err(e) => { total.inconclusive.push(format!("child failed: {}", e)); continue; } };
    processes += 1;
    for line in String::from_utf8_lossy(&out.stdout).lines() {
      let mut it = line.split(' ');
      if it.next() != Some("D") { continue; }
      let (Some(i), Some(d)) = (it.next().and_then(|x| x.parse::<u64>().ok()), it.next().and_then(|x| x.parse::<u64>().ok())) else { continue; };
      compared += 1;
      if digests.get(&i) != Some(&d) {
        let case = make_case(seed, i);
        alarm(&mut total, i, "replay-differs-across-processes", format!("a replay of the same history in another process produced a different event sequence (digest {} vs {:?})", d, digests.get(&i)), &case);
      }
    }
  }
  total.add("cross_process_digests_compared", compared);
  total.add("child_processes", processes);
  total.rule = "Cases: wide well-formed programs (>=5 tasks, up to 8 operations per task) with a first build that requires every task, then 8 builds (top-down / bottom-up) with external changes in between. The complete event log of every session (harness, task-side, checker-side, resource-side and all 23 tracker callbacks) plus outputs and final state is reduced to a digest. One history in four contains builds that abort (a panic at the k-th task operation). Each history is replayed twice in one process with unrelated Pie instances built in between on the same thread (one of them with bottom-up builds that abort while tasks are still scheduled), and once in each of 4 further independent replays spread over 16 child processes (fresh RandomState keys, different address space layout); all digests must be equal. distinct = case digest; non-trivial = history with more than 200 logged events.".into();
  total.floor("cross-process digests compared", compared >= (hi - lo) * 2 || replay.is_some());
  total.floor("events digested", total.get("events_digested") > 10_000 || replay.is_some());
  total
}
