//! The harness' own resource type (`Res`, an integer cell kept in pie's per-resource-type state), its readers and
//! writers (which carry serial numbers), and the tagged checkers `Chk` / `OChk` that log every call pie makes.

use std::cell::RefCell;
use std::collections::{HashMap, HashSet};
use std::error::Error;
use std::fmt::{self, Debug, Display};

use pie::{OutputChecker, Resource, ResourceChecker, ResourceState};

use crate::log::{self, Ev, Kind, OKind, Verdict};

// ---------------------------------------------------------------------------------------------------------------
// Fault / injection switches (thread-local; the harness sets them, the user-side code reads them).
// ---------------------------------------------------------------------------------------------------------------

#[derive(Default, Debug)]
pub struct Faults {
  /// (owner task, resource): `check` returns `Err` while armed.
  pub armed_checks: HashSet<(u32, u32)>,
  /// Every `check` returns `Err` (used while a bottom-up build that is going to be abandoned is being told about
  /// resources: all their dependents get scheduled in it).
  pub fail_all_checks: bool,
  /// Panic when the task-operation counter reaches this value (C19 crash points).
  pub panic_at: Option<u64>,
  pub op_counter: u64,
  /// Operations per session bound (C07); exceeding it panics with STEP_BOUND_MARKER.
  pub step_bound: Option<u64>,
  /// Fail the next `Resource::write`.
  pub fail_next_res_write: bool,
  /// Count (and possibly crash at) entries of user code other than task operations.
  pub crash_in_user_code: bool,
}

pub const STEP_BOUND_MARKER: &str = "PV-STEP-BOUND-EXCEEDED";
pub const INJECTED_PANIC_MARKER: &str = "PV-INJECTED-PANIC";

thread_local! {
  pub static FAULTS: RefCell<Faults> = RefCell::new(Faults::default());
}

pub fn faults_reset() { FAULTS.with(|f| *f.borrow_mut() = Faults::default()); }

/// Called by the scripted task at every operation boundary.
pub fn tick() {
  let (do_panic, over) = FAULTS.with(|f| {
    let mut f = f.borrow_mut();
    f.op_counter += 1;
    (f.panic_at == Some(f.op_counter), f.step_bound.map_or(false, |b| f.op_counter > b))
  });
  if over { panic!("{}", STEP_BOUND_MARKER); }
  if do_panic { panic!("{}", INJECTED_PANIC_MARKER); }
}

/// Called at every entry of user code other than task operations (resource open, checker stamp/check, write function):
/// further crash points for C19. Only counted while `crash_in_user_code` is on, so that the numbering of task
/// operations in all other runs is unaffected.
pub fn tick_user() {
  let on = FAULTS.with(|f| f.borrow().crash_in_user_code);
  if on { tick(); }
}

// ---------------------------------------------------------------------------------------------------------------
// Resource
// ---------------------------------------------------------------------------------------------------------------

#[derive(Clone, Copy, PartialEq, Eq, Hash, PartialOrd, Ord)]
pub struct Res(pub u32);
impl Debug for Res { fn fmt(&self, f: &mut fmt::Formatter<'_>) -> fmt::Result { write!(f, "R{}", self.0) } }

#[derive(Default, Debug, Clone)]
pub struct CellStore { pub vals: HashMap<u32, u32> }
impl CellStore {
  pub fn get(&self, r: u32) -> Option<u32> { self.vals.get(&r).copied() }
  pub fn set(&mut self, r: u32, v: Option<u32>) { match v { Some(v) => { self.vals.insert(r, v); } None => { self.vals.remove(&r); } } }
}

#[derive(Clone, Copy, PartialEq, Eq, Hash, Debug)]
pub struct CellErr(pub u32);
impl Display for CellErr { fn fmt(&self, f: &mut fmt::Formatter<'_>) -> fmt::Result { write!(f, "CellErr#{}", self.0) } }
impl Error for CellErr {}

pub struct CellReader<'rs> { pub serial: u32, pub res: u32, store: &'rs CellStore, pub gets: u32 }
impl CellReader<'_> {
  /// What the task calls to actually read.
  pub fn get(&mut self) -> Option<u32> {
    let v = self.store.get(self.res);
    self.gets += 1;
    log::push(Ev::ReaderGet { reader: self.serial, res: self.res, val: v });
    v
  }
  /// What a checker uses to stamp: does not count as a task read.
  pub fn peek(&self) -> Option<u32> { self.store.get(self.res) }
}

pub struct CellWriter<'r> { pub serial: u32, pub res: u32, store: &'r mut CellStore }
impl CellWriter<'_> {
  pub fn set(&mut self, v: Option<u32>) {
    self.store.set(self.res, v);
    log::push(Ev::WriterSet { writer: self.serial, res: self.res, val: v });
  }
  pub fn peek(&self) -> Option<u32> { self.store.get(self.res) }
}

impl Resource for Res {
  type Reader<'rs> = CellReader<'rs>;
  type Writer<'r> = CellWriter<'r>;
  type Error = CellErr;

  fn read<'rs, RS: ResourceState<Self>>(&self, state: &'rs mut RS) -> Result<CellReader<'rs>, CellErr> {
    tick_user();
    let store: &'rs CellStore = state.get_or_set_default_mut::<CellStore>();
    let serial = log::serial();
    log::push(Ev::ResRead { res: self.0, reader: serial });
    Ok(CellReader { serial, res: self.0, store, gets: 0 })
  }

  fn write<'r, RS: ResourceState<Self>>(&'r self, state: &'r mut RS) -> Result<CellWriter<'r>, CellErr> {
    tick_user();
    let fail = FAULTS.with(|f| std::mem::take(&mut f.borrow_mut().fail_next_res_write));
    if fail {
      let n = log::serial();
      log::push(Ev::ResWrite { res: self.0, writer: None });
      return Err(CellErr(n));
    }
    let store = state.get_or_set_default_mut::<CellStore>();
    let serial = log::serial();
    log::push(Ev::ResWrite { res: self.0, writer: Some(serial) });
    Ok(CellWriter { serial, res: self.0, store })
  }
}

// ---------------------------------------------------------------------------------------------------------------
// Resource checker
// ---------------------------------------------------------------------------------------------------------------

/// `owner` is a tag for the monitors only: equality and hash ignore it, so that checkers passed by different tasks are
/// *equal values* for pie (as built-in checkers are) while every call pie makes still identifies the dependency it
/// belongs to through the very object pie stored.
#[derive(Clone, Copy)]
pub struct Chk { pub kind: Kind, pub owner: u32, pub fail_stamp: bool }
impl PartialEq for Chk { fn eq(&self, o: &Self) -> bool { self.kind == o.kind && self.fail_stamp == o.fail_stamp } }
impl Eq for Chk {}
impl std::hash::Hash for Chk { fn hash<H: std::hash::Hasher>(&self, h: &mut H) { self.kind.hash(h); self.fail_stamp.hash(h); } }
impl Debug for Chk {
  fn fmt(&self, f: &mut fmt::Formatter<'_>) -> fmt::Result {
    write!(f, "Chk({:?},o{}{})", self.kind, self.owner, if self.fail_stamp { ",failstamp" } else { "" })
  }
}

#[derive(Clone, Copy, PartialEq, Eq, Hash)]
pub struct St(pub i32);
impl Debug for St { fn fmt(&self, f: &mut fmt::Formatter<'_>) -> fmt::Result { write!(f, "St({})", self.0) } }

#[derive(Clone, Copy, PartialEq, Eq, Hash, Debug)]
pub struct ChkErr(pub u32);
impl Display for ChkErr { fn fmt(&self, f: &mut fmt::Formatter<'_>) -> fmt::Result { write!(f, "ChkErr#{}", self.0) } }
impl Error for ChkErr {}

#[derive(Debug)]
pub struct Inconsistency(pub i32);

impl ResourceChecker<Res> for Chk {
  type Stamp = St;
  type Error = ChkErr;

  fn stamp<RS: ResourceState<Res>>(&self, resource: &Res, state: &mut RS) -> Result<St, ChkErr> {
    tick_user();
    let now = state.get_or_set_default_mut::<CellStore>().get(resource.0);
    if self.fail_stamp {
      let n = log::serial();
      log::push(Ev::Stamp { owner: self.owner, kind: self.kind, res: resource.0, now, stamp: None });
      return Err(ChkErr(n));
    }
    let s = self.kind.abs(now);
    log::push(Ev::Stamp { owner: self.owner, kind: self.kind, res: resource.0, now, stamp: Some(s) });
    Ok(St(s))
  }

  fn stamp_reader(&self, resource: &Res, reader: &mut CellReader<'_>) -> Result<St, ChkErr> {
    tick_user();
    if self.fail_stamp {
      let n = log::serial();
      log::push(Ev::StampReader { owner: self.owner, kind: self.kind, res: resource.0, reader: reader.serial, gets_before: reader.gets, stamp: None });
      return Err(ChkErr(n));
    }
    let s = self.kind.abs(reader.peek());
    log::push(Ev::StampReader { owner: self.owner, kind: self.kind, res: resource.0, reader: reader.serial, gets_before: reader.gets, stamp: Some(s) });
    Ok(St(s))
  }

  fn stamp_writer(&self, resource: &Res, writer: CellWriter<'_>) -> Result<St, ChkErr> {
    tick_user();
    let now = writer.peek();
    if self.fail_stamp {
      let n = log::serial();
      log::push(Ev::StampWriter { owner: self.owner, kind: self.kind, res: resource.0, writer: writer.serial, now, stamp: None });
      return Err(ChkErr(n));
    }
    let s = self.kind.abs(now);
    log::push(Ev::StampWriter { owner: self.owner, kind: self.kind, res: resource.0, writer: writer.serial, now, stamp: Some(s) });
    Ok(St(s))
  }

  fn check<RS: ResourceState<Res>>(&self, resource: &Res, state: &mut RS, stamp: &St) -> Result<Option<impl Debug>, ChkErr> {
    tick_user();
    let now = state.get_or_set_default_mut::<CellStore>().get(resource.0);
    let armed = FAULTS.with(|f| { let f = f.borrow(); f.fail_all_checks || f.armed_checks.contains(&(self.owner, resource.0)) });
    if armed {
      let n = log::serial();
      log::push(Ev::Check { owner: self.owner, kind: self.kind, res: resource.0, stamp: stamp.0, now, verdict: Verdict::Err(n) });
      return Err(ChkErr(n));
    }
    let s = self.kind.abs(now);
    let verdict = if s == stamp.0 { Verdict::Consistent } else { Verdict::Inconsistent };
    log::push(Ev::Check { owner: self.owner, kind: self.kind, res: resource.0, stamp: stamp.0, now, verdict });
    Ok(if s == stamp.0 { None } else { Some(Inconsistency(s)) })
  }

  fn wrap_error(&self, error: CellErr) -> ChkErr { ChkErr(error.0) }
}

/// The same checker with a *unit* stamp: used for some reads with kind `Always`, whose stamp carries no information
/// anyway (a checker is free to keep everything it needs in itself and in the resource state).
#[derive(Clone, Copy, PartialEq, Eq, Hash)]
pub struct ChkU(pub Chk);
impl Debug for ChkU { fn fmt(&self, f: &mut fmt::Formatter<'_>) -> fmt::Result { self.0.fmt(f) } }

impl ResourceChecker<Res> for ChkU {
  type Stamp = ();
  type Error = ChkErr;
  fn stamp<RS: ResourceState<Res>>(&self, resource: &Res, state: &mut RS) -> Result<(), ChkErr> { self.0.stamp(resource, state).map(|_| ()) }
  fn stamp_reader(&self, resource: &Res, reader: &mut CellReader<'_>) -> Result<(), ChkErr> { self.0.stamp_reader(resource, reader).map(|_| ()) }
  fn stamp_writer(&self, resource: &Res, writer: CellWriter<'_>) -> Result<(), ChkErr> { self.0.stamp_writer(resource, writer).map(|_| ()) }
  fn check<RS: ResourceState<Res>>(&self, resource: &Res, state: &mut RS, _stamp: &()) -> Result<Option<impl Debug>, ChkErr> {
    // (only used with kind Always, whose abstraction of every value is 0)
    static NOTHING: St = St(0);
    self.0.check(resource, state, &NOTHING)
  }
  fn wrap_error(&self, error: CellErr) -> ChkErr { ChkErr(error.0) }
}

// ---------------------------------------------------------------------------------------------------------------
// Output checker
// ---------------------------------------------------------------------------------------------------------------

/// As for `Chk`: `owner` and `target` are tags for the monitors; equality and hash look at the kind only.
#[derive(Clone, Copy)]
pub struct OChk { pub kind: OKind, pub owner: u32, pub target: u32 }
impl PartialEq for OChk { fn eq(&self, o: &Self) -> bool { self.kind == o.kind } }
impl Eq for OChk {}
impl std::hash::Hash for OChk { fn hash<H: std::hash::Hasher>(&self, h: &mut H) { self.kind.hash(h); } }
impl Debug for OChk {
  fn fmt(&self, f: &mut fmt::Formatter<'_>) -> fmt::Result { write!(f, "OChk({:?},o{},t{})", self.kind, self.owner, self.target) }
}

#[derive(Clone, Copy, PartialEq, Eq, Hash)]
pub struct OSt(pub i32);
impl Debug for OSt { fn fmt(&self, f: &mut fmt::Formatter<'_>) -> fmt::Result { write!(f, "OSt({})", self.0) } }

impl OutputChecker<u32> for OChk {
  type Stamp = OSt;
  fn stamp(&self, output: &u32) -> OSt {
    tick_user();
    let s = self.kind.abs(*output);
    log::push(Ev::OStamp { owner: self.owner, ok: self.kind, target: self.target, out: *output, stamp: s });
    OSt(s)
  }
  fn check(&self, output: &u32, stamp: &OSt) -> Option<impl Debug> {
    tick_user();
    let s = self.kind.abs(*output);
    let consistent = s == stamp.0;
    log::push(Ev::OCheck { owner: self.owner, ok: self.kind, target: self.target, out: *output, stamp: stamp.0, consistent });
    if consistent { None } else { Some(Inconsistency(s)) }
  }
}
