//! C13: file checkers detect exactly what they document; the three stamp routes agree; a stamped reader still yields the
//! full content; opening for writing creates/truncates and refuses directories. Real temporary files and directories
//! (under /verif/.work and, when present, /dev/shm), modification times set explicitly.

use std::collections::BTreeSet;
use std::fmt::Debug;
use std::fs::{self, File};
use std::io::{Read, Write};
use std::path::{Path, PathBuf};
use std::time::{Duration, SystemTime};

use pie::resource::file::hash_checker::HashChecker;
use pie::resource::file::{ExistsChecker, ModifiedChecker};
use pie::{Pie, Resource, ResourceChecker};

use crate::report::{Alarm, Report};
use crate::util::{self, Rng, J};

#[derive(Clone, Debug, PartialEq, Eq)]
pub enum PState {
  Absent,
  /// size, content variant, mtime slot
  File(usize, u8, u8),
  /// entry names in creation order, mtime slot
  Dir(Vec<String>, u8),
}

fn t(slot: u8) -> SystemTime { SystemTime::UNIX_EPOCH + Duration::from_secs(1_600_000_000 + slot as u64 * 3600) }

pub fn content(size: usize, variant: u8) -> Vec<u8> {
  // variant 0/1: different everywhere; variant 2: equals variant 0 except for the last byte; variant 3: except the first
  // variant 10: zero-filled; variant 11: a 16-byte pattern repeated (what a block-wise reader that pads or re-uses its
  // buffer cannot tell apart from a shorter / longer file)
  if variant == 10 { return vec![0u8; size]; }
  if variant == 11 { return (0..size).map(|i| b"0123456789abcdef"[i % 16]).collect(); }
  let base = if variant == 1 { 17u32 } else { 3u32 };
  let mut v: Vec<u8> = (0..size).map(|i| ((base * 31 + i as u32 * 7) % 251) as u8).collect();
  if size > 0 {
    if variant == 2 { let n = size - 1; v[n] ^= 0x5a; }
    if variant == 3 { v[0] ^= 0x5a; }
  }
  v
}

fn remove_any(p: &Path) {
  if let Ok(m) = fs::symlink_metadata(p) {
    if m.is_dir() { let _ = fs::remove_dir_all(p); } else { let _ = fs::remove_file(p); }
  }
}

fn set_mtime(p: &Path, when: SystemTime) -> std::io::Result<()> { File::open(p)?.set_modified(when) }

/// Brings `p` into state `s`. When the kind stays "directory", entries are changed in place (the directory itself
/// survives), which is what a user editing a directory does.
fn materialize(p: &Path, s: &PState) -> std::io::Result<()> {
  match s {
    PState::Absent => { remove_any(p); }
    PState::File(size, variant, slot) => {
      if p.is_dir() { remove_any(p); }
      fs::write(p, content(*size, *variant))?;
      set_mtime(p, t(*slot))?;
    }
    PState::Dir(names, slot) => {
      if p.is_file() { remove_any(p); }
      if !p.exists() { fs::create_dir(p)?; }
      for e in fs::read_dir(p)? { let e = e?; let _ = fs::remove_file(e.path()); }
      for n in names { File::create(p.join(os_name(n)))?; }
      set_mtime(p, t(*slot))?;
    }
  }
  Ok(())
}

/// Entry names are kept as Strings; a name of the form `RAWHEX:<hex>` stands for those raw bytes (not valid UTF-8).
fn os_name(n: &str) -> std::ffi::OsString {
  use std::os::unix::ffi::OsStringExt;
  match n.strip_prefix("RAWHEX:") {
    Some(hex) => std::ffi::OsString::from_vec((0..hex.len() / 2).map(|i| u8::from_str_radix(&hex[2 * i..2 * i + 2], 16).unwrap_or(b'?')).collect()),
    None => n.into(),
  }
}

fn aspect_exists(s: &PState) -> bool { !matches!(s, PState::Absent) }
fn aspect_mtime(s: &PState) -> Option<u8> { match s { PState::Absent => None, PState::File(_, _, m) | PState::Dir(_, m) => Some(*m) } }

/// What the property claims for the hash checker: Some(true) = must be consistent, Some(false) = must be inconsistent,
/// None = not claimed.
fn claim_hash(a: &PState, b: &PState, untouched: bool) -> Option<bool> {
  match (a, b) {
    (PState::Absent, PState::Absent) => Some(true),
    (PState::Absent, _) | (_, PState::Absent) => Some(false),
    (PState::File(s1, v1, _), PState::File(s2, v2, _)) => Some(content(*s1, *v1) == content(*s2, *v2)),
    (PState::Dir(n1, _), PState::Dir(n2, _)) => {
      let (a, b): (BTreeSet<&String>, BTreeSet<&String>) = (n1.iter().collect(), n2.iter().collect());
      if a != b { Some(false) } else if untouched { Some(true) } else { None }
    }
    _ => None, // a change of kind between file and directory is not claimed
  }
}

struct Ctx<'a> { pie: Pie<()>, rep: &'a mut Report, seed: u64, root: PathBuf, fsname: &'static str, case: u64 }

impl Ctx<'_> {
  fn alarm(&mut self, sig: &str, msg: String) {
    let msg = format!("[{}] {}", self.fsname, msg);
    self.rep.alarm(Alarm { property: "C13", signature: sig.into(), summary: msg.clone(),
      case: J::obj().with("sub", J::s("files")).with("case", J::from(self.case)).with("seed", J::from(self.seed)),
      detail: J::obj().with("message", J::s(msg)).with("filesystem", J::s(self.fsname)) });
  }
}

/// Stamps `p` (in state `a`) through path and reader routes, transforms to `b`, checks.
fn pair<C: ResourceChecker<PathBuf>>(cx: &mut Ctx, name: &str, c: &C, p: &PathBuf, a: &PState, b: &PState, claim: Option<bool>) where C::Stamp: PartialEq + Debug {
  if let Err(e) = materialize(p, a) { cx.rep.inconclusive.push(format!("cannot materialize {:?}: {}", a, e)); return; }
  let st = cx.pie.resource_state_mut::<PathBuf>();
  let s_path = match c.stamp(p, st) { Ok(s) => s, Err(e) => { cx.alarm(&format!("{}:stamp-error", name), format!("{} stamp of {:?} failed: {}", name, a, e)); return; } };
  let s_reader = match p.read(st).map_err(|e| c.wrap_error(e)).and_then(|mut r| c.stamp_reader(p, &mut r)) { Ok(s) => s, Err(e) => { cx.alarm(&format!("{}:stamp-error", name), format!("{} stamp_reader of {:?} failed: {}", name, a, e)); return; } };
  cx.rep.count("stamp_route_comparisons");
  if s_path != s_reader {
    cx.alarm(&format!("{}:routes-differ", name), format!("{}: path stamp {:?} differs from reader stamp {:?} for {:?}", name, s_path, s_reader, a));
    return;
  }
  // untouched => consistent
  let untouched_check: Result<Option<String>, String> = c.check(p, st, &s_path).map(|o| o.map(|i| format!("{:?}", i))).map_err(|e| e.to_string());
  match untouched_check {
    Ok(None) => {}
    Ok(Some(i)) => { cx.alarm(&format!("{}:untouched-inconsistent", name), format!("{}: {:?} untouched but inconsistent with its own stamp ({:?})", name, a, i)); return; }
    Err(e) => { cx.alarm(&format!("{}:check-error", name), format!("{} check of untouched {:?} failed: {}", name, a, e)); return; }
  }
  if a == b { return; }
  if let Err(e) = materialize(p, b) { cx.rep.inconclusive.push(format!("cannot materialize {:?}: {}", b, e)); return; }
  let st = cx.pie.resource_state_mut::<PathBuf>();
  cx.rep.count("state_pairs_checked");
  let second_check: Result<bool, String> = c.check(p, st, &s_path).map(|x| x.is_some()).map_err(|e| e.to_string());
  let inconsistent = match second_check { Ok(x) => x, Err(e) => { cx.alarm(&format!("{}:check-error", name), format!("{} check {:?} -> {:?} failed: {}", name, a, b, e)); return; } };
  if let Some(must_be_consistent) = claim {
    if inconsistent == must_be_consistent {
      let sig = if matches!((a, b), (PState::Dir(..), PState::Dir(..))) && name == "HashChecker" { "HashChecker:directory-listing-change-missed".to_string() } else { format!("{}:wrong-verdict", name) };
      cx.alarm(&sig, format!("{}: stamped in state {:?}, checked in state {:?}: reported {} but the observed aspect is {}", name, a, b, if inconsistent { "inconsistent" } else { "consistent" }, if must_be_consistent { "unchanged" } else { "different" }));
    }
  }
}

/// Writer route, reader position, write semantics for one file state.
fn file_routes(cx: &mut Ctx, p: &PathBuf, before: &PState, size: usize, variant: u8) {
  if materialize(p, before).is_err() { return; }
  let data = content(size, variant);
  let st = cx.pie.resource_state_mut::<PathBuf>();
  // Resource::write: creates or truncates a file, refuses directories
  let w = p.write(st);
  if matches!(before, PState::Dir(..)) {
    cx.rep.count("write_on_directory_attempts");
    if w.is_ok() { cx.alarm("write-accepts-directory", format!("opening a directory {:?} for writing succeeded", before)); }
    return;
  }
  let mut f = match w { Ok(f) => f, Err(e) => { cx.alarm("write-open-error", format!("opening {:?} for writing failed: {}", before, e)); return; } };
  match fs::metadata(p) { Ok(m) if m.is_file() && m.len() == 0 => {}, other => { cx.alarm("write-not-truncated", format!("after opening {:?} for writing the path is {:?}, expected an empty file", before, other.map(|m| m.len()))); return; } }
  if f.write_all(&data).is_err() { return; }
  let _ = f.flush();
  // writer route for all three checkers vs path route
  macro_rules! writer_route {
    ($c:expr, $name:expr) => {{
      let c = $c;
      let dup = match f.try_clone() { Ok(d) => d, Err(_) => return };
      let sw = c.stamp_writer(p, dup);
      let sp = c.stamp(p, cx.pie.resource_state_mut::<PathBuf>());
      cx.rep.count("writer_route_comparisons");
      match (sw, sp) {
        (Ok(a), Ok(b)) => if a != b { cx.alarm(&format!("{}:writer-route-differs", $name), format!("{}: stamp from the just-used writer {:?} differs from the path stamp {:?} (file of {} bytes)", $name, a, b, size)); },
        (a, b) => cx.alarm(&format!("{}:stamp-error", $name), format!("{}: writer/path stamp failed: {:?} / {:?}", $name, a.map(|_| ()), b.map(|_| ()))),
      }
    }};
  }
  writer_route!(ExistsChecker, "ExistsChecker");
  writer_route!(ModifiedChecker, "ModifiedChecker");
  writer_route!(HashChecker, "HashChecker");
  drop(f);
  // a stamped reader is positioned at the start: the task reads the full content
  macro_rules! reader_full {
    ($c:expr, $name:expr) => {{
      let c = $c;
      let st = cx.pie.resource_state_mut::<PathBuf>();
      if let Ok(mut r) = p.read(st) {
        let _ = c.stamp_reader(p, &mut r);
        let mut got = Vec::new();
        match r.as_file() { Some(fr) => { let _ = fr.read_to_end(&mut got); } None => { cx.alarm("reader-not-a-file", format!("reader of a file of {} bytes is not a file", size)); return; } }
        cx.rep.count("reader_content_comparisons");
        if got != data { cx.alarm(&format!("{}:reader-not-rewound", $name), format!("{}: after stamp_reader the reader yields {} of {} bytes (first difference at {:?})", $name, got.len(), data.len(), got.iter().zip(data.iter()).position(|(a, b)| a != b))); }
      }
    }};
  }
  reader_full!(ExistsChecker, "ExistsChecker");
  reader_full!(ModifiedChecker, "ModifiedChecker");
  reader_full!(HashChecker, "HashChecker");
  // a writer whose file was removed: stamps must say "absent"
  let st = cx.pie.resource_state_mut::<PathBuf>();
  if let Ok(f2) = p.write(st) {
    let _ = fs::remove_file(p);
    if let Ok(s) = HashChecker.stamp_writer(p, f2) { if s.is_some() { cx.alarm("HashChecker:writer-of-removed-file", "stamp_writer on a removed file is not None".into()); } }
  }
}

fn letters() -> Vec<char> { "abcdefghijklmnopqrstuvwxyz".chars().collect() }

/// Directory name sets that are different as sets but equal as an undelimited concatenation in *some* order.
fn ambiguous_pairs(rng: &mut Rng, n: usize) -> Vec<(Vec<String>, Vec<String>)> {
  let l = letters();
  let mut out = Vec::new();
  for _ in 0..n {
    let mut pick = l.clone();
    rng.shuffle(&mut pick);
    let (p, q, r, s) = (pick[0], pick[1], pick[2], pick[3]);
    match rng.below(4) {
      0 => out.push((vec![format!("{}", p), format!("{}{}", q, r)], vec![format!("{}{}", p, q), format!("{}", r)])),
      1 => out.push((vec![format!("{}{}", p, q), format!("{}{}", r, s)], vec![format!("{}", p), format!("{}{}{}", q, r, s)])),
      2 => out.push((vec![format!("{}", p), format!("{}", q), format!("{}{}", r, s)], vec![format!("{}{}", p, q), format!("{}", r), format!("{}", s)])),
      _ => out.push((vec![format!("{}{}{}", p, q, r)], vec![format!("{}{}", p, q), format!("{}", r)])),
    }
  }
  out
}

fn listing(p: &Path) -> Vec<String> { fs::read_dir(p).map(|d| d.filter_map(|e| e.ok()).map(|e| e.file_name().to_string_lossy().to_string()).collect()).unwrap_or_default() }

fn run_on(root: &Path, fsname: &'static str, tier: &str, seed: u64, rep: &mut Report, replay: Option<u64>) {
  let dir = root.join(format!("pv-c13-{}-{}", std::process::id(), seed));
  let _ = fs::remove_dir_all(&dir);
  if fs::create_dir_all(&dir).is_err() { rep.inconclusive.push(format!("cannot create {:?}", dir)); return; }
  let p = dir.join("target");
  let mut cx = Ctx { pie: Pie::default(), rep, seed, root: dir.clone(), fsname, case: 0 };
  let mut rng = Rng::derive(seed ^ 0xC13, 1);
  let sizes: Vec<usize> = if tier == "quick" { vec![0, 1, 8191, 8192, 8193, 16_384] } else { vec![0, 1, 2, 4095, 4096, 8191, 8192, 8193, 16_383, 16_384, 16_385, 65_536, 100_000] };
  // ---- file / absent / small-directory states, all ordered pairs
  let mut states = vec![PState::Absent, PState::Dir(vec![], 0), PState::Dir(vec!["a".into()], 0), PState::Dir(vec!["a".into(), "b".into()], 1)];
  for s in &sizes { for v in 0..4u8 { if *s == 0 && v > 0 { continue; } states.push(PState::File(*s, v, (v % 2) as u8)); } }
  for s in [1usize, 8192] { states.push(PState::File(s, 0, 1)); } // same content, other mtime
  // contents that differ only in their length: trailing NUL bytes, zero-filled files, periodic content
  for s in [1usize, 2, 3, 4, 8192, 8193, 65_536, 65_537, 70_000] { states.push(PState::File(s, 10, 0)); }
  for s in [16usize, 32, 65_536, 65_552, 72_000, 72_160] { states.push(PState::File(s, 11, 0)); }
  let mut case = 0u64;
  for a in &states {
    for b in &states {
      case += 1;
      if replay.map_or(false, |c| c != case) { continue; }
      // keep the quadratic part affordable: big x big pairs only when sizes are equal (the interesting comparisons)
      if let (PState::File(s1, ..), PState::File(s2, ..)) = (a, b) { if *s1 > 20_000 && *s2 > 20_000 && s1 != s2 { continue; } }
      cx.case = case;
      cx.rep.evaluations += 1;
      let untouched = a == b;
      pair(&mut cx, "ExistsChecker", &ExistsChecker, &p, a, b, Some(aspect_exists(a) == aspect_exists(b)));
      pair(&mut cx, "ModifiedChecker", &ModifiedChecker, &p, a, b, Some(aspect_mtime(a) == aspect_mtime(b)));
      pair(&mut cx, "HashChecker", &HashChecker, &p, a, b, claim_hash(a, b, untouched));
      if a != b { cx.rep.nontrivial(case ^ (fsname.len() as u64) << 40); }
    }
  }
  // ---- writer route, reader position, write semantics
  for before in [PState::Absent, PState::File(10, 1, 0), PState::File(20_000, 1, 1), PState::Dir(vec![], 0), PState::Dir(vec!["x".into()], 0)] {
    for s in &sizes { for v in [0u8, 2] {
      case += 1;
      if replay.map_or(false, |c| c != case) { continue; }
      cx.case = case;
      cx.rep.evaluations += 1;
      file_routes(&mut cx, &p, &before, *s, v);
    } }
  }
  // ---- directory listings: concatenation-ambiguous name sets in every creation order
  let n_pairs = if tier == "quick" { 150 } else { 1200 };
  let mut colliding_orders = 0u64;
  for (n1, n2) in ambiguous_pairs(&mut rng, n_pairs) {
    let mut orders1 = vec![n1.clone()]; let mut r1 = n1.clone(); r1.reverse(); if r1 != n1 { orders1.push(r1); }
    let mut orders2 = vec![n2.clone()]; let mut r2 = n2.clone(); r2.reverse(); if r2 != n2 { orders2.push(r2); }
    for o1 in &orders1 { for o2 in &orders2 {
      case += 1;
      if replay.map_or(false, |c| c != case) { continue; }
      cx.case = case;
      cx.rep.evaluations += 1;
      // does this combination list in a colliding order on this file system? (coverage evidence)
      let _ = materialize(&p, &PState::Dir(o1.clone(), 0));
      let c1 = listing(&p).concat();
      let _ = materialize(&p, &PState::Dir(o2.clone(), 0));
      let c2 = listing(&p).concat();
      if c1 == c2 { colliding_orders += 1; }
      pair(&mut cx, "HashChecker", &HashChecker, &p, &PState::Dir(o1.clone(), 0), &PState::Dir(o2.clone(), 0), Some(false));
      pair(&mut cx, "ExistsChecker", &ExistsChecker, &p, &PState::Dir(o1.clone(), 0), &PState::Dir(o2.clone(), 1), Some(true));
      cx.rep.nontrivial(case ^ (fsname.len() as u64) << 40);
    } }
  }
  // ---- unusual entry names: every ordered pair of different name sets must be told apart
  let long = "n".repeat(200);
  let special: Vec<Vec<String>> = vec![
    vec![], vec!["a".into()], vec![".a".into()], vec!["a".into(), ".a".into()], vec![".hidden".into(), "x".into()], vec!["x".into()],
    vec![".env".into(), ".gitignore".into()], vec![".env".into()], vec!["A".into()], vec!["a b".into()], vec!["a".into(), "b".into()],
    vec!["\u{e9}".into()], vec!["e".into()], vec!["a.txt".into()], vec!["a.txt".into(), "a".into()], vec![long.clone()], vec![format!("{}x", &long[..199])],
    vec!["-".into()], vec!["~".into()], vec!["..a".into()], vec!["a.".into()],
    // names that are not valid UTF-8 (ISO-8859-1 "cafe" with e-acute / e-grave, lone 0xff / 0xfe, an invalid byte inside)
    vec!["RAWHEX:636166e92e747874".into()], vec!["RAWHEX:636166e82e747874".into()], vec!["RAWHEX:ff".into()], vec!["RAWHEX:fe".into()],
    vec!["RAWHEX:61ff62".into(), "x".into()], vec!["RAWHEX:61fe62".into(), "x".into()], vec!["\u{fffd}".into()],
  ];
  for (i, n1) in special.iter().enumerate() {
    for (j, n2) in special.iter().enumerate() {
      if i == j { continue; }
      case += 1;
      if replay.map_or(false, |c| c != case) { continue; }
      cx.case = case;
      cx.rep.evaluations += 1;
      cx.rep.count("special_name_set_pairs");
      pair(&mut cx, "HashChecker", &HashChecker, &p, &PState::Dir(n1.clone(), 0), &PState::Dir(n2.clone(), 0), Some(false));
      cx.rep.nontrivial(case ^ (fsname.len() as u64) << 40);
    }
  }
  cx.rep.add(&format!("directory_pairs_listing_in_a_colliding_order_{}", fsname), colliding_orders);
  cx.rep.seen("filesystems", fsname);
  let root_dir = cx.root.clone();
  let _ = fs::remove_dir_all(&root_dir);
}

pub fn run(tier: &str, seed: u64, replay: Option<u64>) -> Report {
  let mut rep = Report::new();
  let work = PathBuf::from(std::env::var("PV_WORK").unwrap_or_else(|_| "/verif/.work".into()));
  let _ = fs::create_dir_all(&work);
  run_on(&work, "workdir", tier, seed, &mut rep, replay);
  if Path::new("/dev/shm").is_dir() { run_on(Path::new("/dev/shm"), "tmpfs", tier, seed, &mut rep, replay); }
  let collide: u64 = rep.counters.iter().filter(|(k, _)| k.starts_with("directory_pairs_listing_in_a_colliding_order")).map(|(_, v)| *v).sum();
  rep.sample(|| J::s("File(8192 bytes, variant 0, mtime slot 0) stamped, File(8192 bytes, variant 2 = last byte differs, mtime slot 0) checked: Exists consistent, Modified consistent, Hash inconsistent"));
  rep.sample(|| J::s("Dir created [\"a\", \"bc\"] stamped, changed in place to [\"ab\", \"c\"], checked: Hash must be inconsistent"));
  rep.rule = "Path states: absent; files of sizes around the 8 KiB read buffer and beyond (quick: 0,1,8191,8192,8193,16384; thorough: 13 sizes up to 100000) in 4 content variants (different everywhere / only last byte / only first byte), zero-filled files of 9 lengths and 16-byte-periodic files of 6 lengths (1 B to 72 160 B: contents that differ only in how long they are) with explicitly set modification times (2 slots); small directories; and concatenation-ambiguous directory name sets ({p,qr}/{pq,r}, {pq,rs}/{p,qrs}, {p,q,rs}/{pq,r,s}, {pqr}/{pq,r}) over random letters, created in every order, changed in place; plus all ordered pairs of 28 name sets with unusual names (dot-prefixed, spaces, upper case, non-ASCII, 200 characters, trailing dot, names that are not valid UTF-8 and differ only in the invalid bytes, U+FFFD itself). For ALL ordered pairs (state when stamped, state when checked) x {Exists, Modified, Hash}: path and reader stamps agree, untouched => consistent, and the verdict equals equality of the documented aspect (hash: file<->directory kind change and same-name-set directories that were recreated are not claimed). Writer route: file written through Resource::write, stamp_writer == path stamp; stamped readers must still deliver the full content; Resource::write must create/truncate and refuse directories. Run on the work directory's file system and on tmpfs (/dev/shm) because directory iteration order is file-system specific. non-trivial = pair with different states.".into();
  rep.floor("directory pairs that list in a colliding order were exercised", collide > 0 || replay.is_some());
  rep.floor("writer route comparisons ran", rep.get("writer_route_comparisons") > 10 || replay.is_some());
  rep.floor("reader content comparisons ran", rep.get("reader_content_comparisons") > 10 || replay.is_some());
  let _ = util::threads();
  rep
}
