//! Drives a real `Pie` instance through a history and records, per session, everything the monitors need.

use std::collections::BTreeSet;
use std::rc::Rc;

use pie::tracker::Tracker;
use pie::{Pie, ResourceState};

use crate::cell::{self, CellStore, Res};
use crate::log::{self, Ev};
use crate::prog::{Prog, Program};
use crate::shadow::{self, Dump, Shadow};
use crate::util::catch;

#[derive(Clone, Copy, Debug, PartialEq, Eq)]
pub enum SessKind { TopDown, BottomUp }

pub struct SessionRec {
  pub no: u32,
  pub kind: SessKind,
  pub pre_world: Vec<Option<u32>>,
  pub post_world: Vec<Option<u32>>,
  pub events: Vec<Ev>,
  /// Roots required top-down in this session with the returned output (only those that returned).
  pub roots: Vec<(u32, u32)>,
  pub requested_roots: Vec<u32>,
  pub scheduled: Vec<u32>,
  pub aborted: Option<String>,
  pub dep_errors: Vec<String>,
  pub shadow_before: Shadow,
  pub dump: Dump,
}

pub struct Driver<A: Tracker> {
  pub prog: Rc<Program>,
  pub pie: Pie<A>,
  pub world: Vec<Option<u32>>,
  pub shadow: Shadow,
  /// Resources changed externally since the last point at which every known task was brought up to date.
  pub pending: BTreeSet<u32>,
  /// If set, the next bottom-up session first creates a bottom-up build, tells it about these resources while every
  /// checker fails (so that all their dependents are scheduled in it), and drops it without updating.
  pub abandon_plan: Option<Vec<u32>>,
  pub session_no: u32,
}

impl<A: Tracker> Driver<A> {
  pub fn new(prog: Rc<Program>, init: &[Option<u32>], tracker: A) -> Self {
    let mut pie = Pie::with_tracker(tracker);
    {
      let store = pie.resource_state_mut::<Res>().get_or_set_default_mut::<CellStore>();
      for (r, v) in init.iter().enumerate() { store.set(r as u32, *v); }
    }
    let n = prog.n_tasks();
    Driver { prog, pie, world: init.to_vec(), shadow: Shadow::new(n), pending: BTreeSet::new(), abandon_plan: None, session_no: 0 }
  }

  pub fn set(&mut self, res: u32, val: Option<u32>) {
    self.pie.resource_state_mut::<Res>().get_or_set_default_mut::<CellStore>().set(res, val);
    self.world[res as usize] = val;
    self.pending.insert(res);
    log::push(Ev::ExtSet { res, val });
  }

  pub fn arm(&mut self, owner: u32, res: u32, on: bool) {
    cell::FAULTS.with(|f| {
      let mut f = f.borrow_mut();
      if on { f.armed_checks.insert((owner, res)); } else { f.armed_checks.remove(&(owner, res)); }
    });
    log::push(Ev::Arm { owner, res, on });
  }

  fn sync_world(&mut self) {
    let store = self.pie.resource_state_mut::<Res>().get_or_set_default_mut::<CellStore>();
    for r in 0..self.world.len() { self.world[r] = store.get(r as u32); }
  }

  /// Runs one session. `bottom_up`: `Some(resources)` = create a bottom-up build, schedule those resources (in the given
  /// order) and update; then `roots` are required top-down in the same session. The session ends at the first abort.
  pub fn session(&mut self, bottom_up: Option<Vec<u32>>, roots: &[u32]) -> SessionRec {
    self.session_inner(bottom_up, roots, false).0
  }

  /// Like `session`, but if the build aborts the panic is caught *inside* the pie session, armed crash points are
  /// switched off, and `roots` are required again through the same, still open `Session` object (second record; its
  /// `pre_world` is the state the aborted build left behind). The store dump is taken after the session has ended and
  /// belongs to the second record; the first one carries none.
  pub fn session_with_retry(&mut self, bottom_up: Option<Vec<u32>>, roots: &[u32]) -> (SessionRec, Option<SessionRec>) {
    self.session_inner(bottom_up, roots, true)
  }

  fn session_inner(&mut self, bottom_up: Option<Vec<u32>>, roots: &[u32], retry: bool) -> (SessionRec, Option<SessionRec>) {
    self.session_no += 1;
    let pre_events = log::take(); // external changes since the last session: folded into this record's prefix
    let pre_world = self.world.clone();
    let shadow_before = self.shadow.clone();
    for e in pre_events { log::push(e); }
    log::push(Ev::SessionOpen { n: self.session_no });
    cell::FAULTS.with(|f| f.borrow_mut().op_counter = 0);
    let table = self.prog.clone();
    let kind = if bottom_up.is_some() { SessKind::BottomUp } else { SessKind::TopDown };
    let scheduled = bottom_up.clone().unwrap_or_default();
    let require_root = |session: &mut pie::Session, r: u32| -> u32 {
      let t = Prog { id: r, table: table.clone() };
      match table.tasks[r as usize].wrap {
        1 => session.require(&Box::new(t)),
        2 => session.require(&std::rc::Rc::new(t)),
        3 => session.require(&std::sync::Arc::new(t)),
        _ => session.require(&t),
      }
    };
    // first part: (events, returned, aborted, dep_errors); second part only with `retry` after an abort
    let mut first: Option<(Vec<Ev>, Vec<(u32, u32)>, Option<String>, Vec<String>)> = None;
    let mut second: Option<(Vec<Ev>, Vec<(u32, u32)>, Option<String>, Vec<String>)> = None;
    {
      let pie = &mut self.pie;
      let mut session = pie.new_session();
      let mut returned: Vec<(u32, u32)> = Vec::new();
      let abandon = self.abandon_plan.take();
      let result = catch(|| {
        if let (Some(_), Some(told)) = (&bottom_up, &abandon) {
          log::push(Ev::BuCreate);
          let mut bu0 = session.create_bottom_up_build();
          cell::FAULTS.with(|f| f.borrow_mut().fail_all_checks = true);
          for r in told {
            log::push(Ev::BuSchedule { res: *r });
            bu0.schedule_tasks_affected_by(&Res(*r));
          }
          cell::FAULTS.with(|f| f.borrow_mut().fail_all_checks = false);
          drop(bu0);
          log::push(Ev::BuAbandon);
        }
        if let Some(changed) = &bottom_up {
          log::push(Ev::BuCreate);
          let mut bu = session.create_bottom_up_build();
          for r in changed {
            log::push(Ev::BuSchedule { res: *r });
            bu.schedule_tasks_affected_by(&Res(*r));
          }
          log::push(Ev::BuUpdateCall);
          bu.update_affected_tasks();
          log::push(Ev::BuUpdateRet);
        }
        for r in roots {
          log::push(Ev::RootCall { task: *r });
          let out = require_root(&mut session, *r);
          log::push(Ev::RootRet { task: *r, out });
          returned.push((*r, out));
        }
      });
      cell::FAULTS.with(|f| f.borrow_mut().fail_all_checks = false);
      let aborted = result.err();
      let dep_errors: Vec<String> = if aborted.is_none() { session.dependency_check_errors().map(|e| e.to_string()).collect() } else { Vec::new() };
      if let Some(msg) = &aborted { log::push(Ev::Abort { msg: msg.clone() }); } else { log::push(Ev::DepErrors { errs: dep_errors.clone() }); }
      let do_retry = retry && aborted.is_some() && !roots.is_empty();
      if !do_retry { log::push(Ev::SessionClose); }
      first = Some((log::take(), returned, aborted, dep_errors));
      if do_retry {
        cell::FAULTS.with(|f| { let mut f = f.borrow_mut(); f.panic_at = None; f.crash_in_user_code = false; });
        self.session_no += 1;
        log::push(Ev::SessionOpen { n: self.session_no });
        let mut returned2: Vec<(u32, u32)> = Vec::new();
        let result2 = catch(|| {
          for r in roots {
            log::push(Ev::RootCall { task: *r });
            let out = require_root(&mut session, *r);
            log::push(Ev::RootRet { task: *r, out });
            returned2.push((*r, out));
          }
        });
        let aborted2 = result2.err();
        let dep_errors2: Vec<String> = if aborted2.is_none() { session.dependency_check_errors().map(|e| e.to_string()).collect() } else { Vec::new() };
        if let Some(msg) = &aborted2 { log::push(Ev::Abort { msg: msg.clone() }); } else { log::push(Ev::DepErrors { errs: dep_errors2.clone() }); }
        log::push(Ev::SessionClose);
        second = Some((log::take(), returned2, aborted2, dep_errors2));
      }
    }
    let (events, returned, aborted, dep_errors) = first.take().unwrap();
    // the state the first part left behind, reconstructed from the resource-side events (the cells cannot be looked at
    // while the pie session is open)
    let mut mid_world = pre_world.clone();
    for e in &events { match e { Ev::WriterSet { res, val, .. } | Ev::ExtSet { res, val } => mid_world[*res as usize] = *val, _ => {} } }
    for e in &events { self.shadow.apply(e); }
    let mid_shadow = self.shadow.clone();
    if let Some((ev2, _, _, _)) = &second { for e in ev2 { self.shadow.apply(e); } }
    self.sync_world();
    // the dump walks every adjacency list and edge; a store whose redundant encodings disagree makes it panic
    let pie = &self.pie;
    let dump = match catch(|| shadow::convert(&pie.verif_dump())) {
      Ok(d) => d,
      Err(msg) => { let mut d = Dump::default(); d.problems.push(format!("the store dump panicked (the store's adjacency sets and edge data disagree): {}", msg)); d }
    };
    match second {
      None => (SessionRec {
        no: self.session_no, kind, pre_world, post_world: self.world.clone(), events, roots: returned,
        requested_roots: roots.to_vec(), scheduled, aborted, dep_errors, shadow_before, dump,
      }, None),
      Some((ev2, returned2, aborted2, dep_errors2)) => {
        let absent = Dump { absent: true, ..Dump::default() };
        let rec1 = SessionRec {
          no: self.session_no - 1, kind, pre_world, post_world: mid_world.clone(), events, roots: returned,
          requested_roots: roots.to_vec(), scheduled, aborted, dep_errors, shadow_before, dump: absent,
        };
        let rec2 = SessionRec {
          no: self.session_no, kind: SessKind::TopDown, pre_world: mid_world, post_world: self.world.clone(), events: ev2, roots: returned2,
          requested_roots: roots.to_vec(), scheduled: Vec::new(), aborted: aborted2, dep_errors: dep_errors2, shadow_before: mid_shadow, dump,
        };
        (rec1, Some(rec2))
      }
    }
  }
}
