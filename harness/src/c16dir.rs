//! C16, file-backed part: histories over pie's real `PathBuf` resource with *directories* read through `HashChecker`
//! (the stamp of a directory is computed from its listing). The same history is replayed on a fresh `Pie` over a
//! re-created directory at the same path; the sequence of executions and outputs must be identical.

use std::cell::RefCell;
use std::fs;
use std::path::PathBuf;

use pie::resource::file::hash_checker::HashChecker;
use pie::task::EqualsChecker;
use pie::trait_object::KeyObj;
use pie::{Context, Pie, Task};

use crate::report::{Alarm, Report};
use crate::util::{self, catch, Fnv, Rng, J};

thread_local! { static LOG: RefCell<Vec<String>> = const { RefCell::new(Vec::new()) }; }
fn note(s: String) { LOG.with(|l| l.borrow_mut().push(s)); }

/// Lists a directory (dependency on its listing through HashChecker); output = number of entries it saw.
#[derive(Clone, PartialEq, Eq, Hash, Debug)]
struct Lister(PathBuf);
impl Task for Lister {
  type Output = u32;
  fn execute<C: Context>(&self, ctx: &mut C) -> u32 {
    note(format!("exec {:?}", self));
    let _ = ctx.read(&self.0, HashChecker);
    fs::read_dir(&self.0).map(|d| d.count() as u32).unwrap_or(u32::MAX)
  }
}
/// Reads one file through HashChecker; output = its length.
#[derive(Clone, PartialEq, Eq, Hash, Debug)]
struct Len(PathBuf);
impl Task for Len {
  type Output = u32;
  fn execute<C: Context>(&self, ctx: &mut C) -> u32 {
    note(format!("exec {:?}", self));
    match ctx.read(&self.0, HashChecker) { Ok(mut open) => match open.as_file() { Some(f) => { let mut s = String::new(); let _ = std::io::Read::read_to_string(f, &mut s); s.len() as u32 } None => u32::MAX - 1 }, Err(_) => u32::MAX }
  }
}
/// Requires the listers of the directory and its sub-directory and the length of every pool file.
#[derive(Clone, PartialEq, Eq, Hash, Debug)]
struct Top(PathBuf, u32);
impl Task for Top {
  type Output = u32;
  fn execute<C: Context>(&self, ctx: &mut C) -> u32 {
    note(format!("exec {:?}", self));
    let mut acc = ctx.require(&Lister(self.0.clone()), EqualsChecker);
    acc = acc.wrapping_mul(31).wrapping_add(ctx.require(&Lister(self.0.join("sub")), EqualsChecker));
    for k in 0..self.1 { acc = acc.wrapping_mul(31).wrapping_add(ctx.require(&Len(self.0.join(format!("f{}", k))), EqualsChecker)); }
    acc
  }
}

#[derive(Clone, Debug)]
enum Op { Put(bool, u32, u32), Del(bool, u32), TopDown, BottomUp }

fn gen_history(rng: &mut Rng) -> (u32, Vec<Op>) {
  let pool = rng.range(2, 6) as u32;
  let mut ops = Vec::new();
  // at least two entries in each directory before the first build
  for k in 0..pool.min(3) { ops.push(Op::Put(false, k, k + 1)); }
  ops.push(Op::Put(true, 0, 1));
  ops.push(Op::Put(true, 1, 2));
  ops.push(Op::TopDown);
  for _ in 0..rng.range(6, 14) {
    match rng.below(10) {
      0..=2 => ops.push(Op::Put(rng.chance(1, 3), rng.below(pool as usize) as u32, rng.range(1, 9) as u32)),
      3 => ops.push(Op::Del(rng.chance(1, 3), rng.below(pool as usize) as u32)),
      4..=6 => ops.push(Op::TopDown),
      _ => ops.push(Op::BottomUp),
    }
  }
  ops.push(Op::TopDown);
  (pool, ops)
}

/// Replays the history in `dir` (re-created) on a fresh Pie; returns the log (executions, outputs, aborts).
fn replay(dir: &PathBuf, pool: u32, ops: &[Op]) -> Vec<String> {
  let _ = fs::remove_dir_all(dir);
  let _ = fs::create_dir_all(dir.join("sub"));
  LOG.with(|l| l.borrow_mut().clear());
  let mut pie: Pie<()> = Pie::default();
  let mut changed: Vec<PathBuf> = Vec::new();
  let path = |sub: bool, k: u32| if sub { dir.join("sub").join(format!("s{}", k)) } else { dir.join(format!("f{}", k)) };
  for op in ops {
    match op {
      Op::Put(sub, k, len) => { let p = path(*sub, *k); let _ = fs::write(&p, "x".repeat(*len as usize)); changed.push(p); changed.push(if *sub { dir.join("sub") } else { dir.clone() }); }
      Op::Del(sub, k) => { let p = path(*sub, *k); let _ = fs::remove_file(&p); changed.push(p); changed.push(if *sub { dir.join("sub") } else { dir.clone() }); }
      Op::TopDown | Op::BottomUp => {
        let bottom_up = matches!(op, Op::BottomUp);
        note(format!("-- session bottom_up={}", bottom_up));
        let top = Top(dir.clone(), pool);
        let r = catch(|| {
          let mut s = pie.new_session();
          if bottom_up {
            let mut bu = s.create_bottom_up_build();
            for p in &changed { bu.schedule_tasks_affected_by(p as &dyn KeyObj); }
            bu.update_affected_tasks();
          }
          s.require(&top)
        });
        note(format!("result {:?}", r));
        changed.clear();
      }
    }
  }
  let _ = fs::remove_dir_all(dir);
  LOG.with(|l| std::mem::take(&mut *l.borrow_mut()))
}

pub fn run(tier: &str, seed: u64, replay_case: Option<u64>) -> Report {
  let scale: u64 = (if tier == "thorough" { 20 } else { 1 }) * util::env_u64("PV_SCALE", 1);
  let n: u64 = 600 * scale;
  let workdir = if std::path::Path::new("/dev/shm").is_dir() { PathBuf::from("/dev/shm") } else { PathBuf::from(std::env::var("PV_WORK").unwrap_or_else(|_| "/verif/.work".into())) };
  let range: Vec<u64> = match replay_case { Some(c) => vec![c], None => (0..n).collect() };
  let parts = util::parallel(range.len() as u64, util::threads(), 16, Report::new, |k, rep: &mut Report| {
    let i = range[k as usize];
    let mut rng = Rng::derive(seed ^ 0xC16D, i);
    let (pool, ops) = gen_history(&mut rng);
    let dir = workdir.join(format!("pv-c16dir-{}-{}-{}", std::process::id(), seed, i));
    let a = replay(&dir, pool, &ops);
    let b = replay(&dir, pool, &ops);
    rep.evaluations += 1;
    rep.add("directory_history_replays", 2);
    rep.add("directory_history_log_lines", a.len() as u64);
    let execs = a.iter().filter(|l| l.starts_with("exec")).count();
    rep.add("directory_history_executions", execs as u64);
    let mut h = Fnv::default(); for l in &ops { h.str(&format!("{:?}", l)); }
    if execs > 8 { rep.nontrivial(h.0); }
    if a != b {
      let k = a.iter().zip(b.iter()).position(|(x, y)| x != y).unwrap_or(a.len().min(b.len()));
      let msg = format!("two replays of the same file-backed history (directories read through HashChecker) differ at log line {}: {:?} vs {:?}", k, a.get(k), b.get(k));
      rep.alarm(Alarm { property: "C16", signature: "directory-history-replay-differs".into(), summary: format!("[dir case {}] {}", i, msg),
        case: J::obj().with("sub", J::s("dirs")).with("case", J::from(i)).with("seed", J::from(seed)),
        detail: J::obj().with("history", J::A(ops.iter().map(|o| J::s(format!("{:?}", o))).collect())).with("first_replay", J::A(a.iter().map(|l| J::s(l.clone())).collect())).with("second_replay", J::A(b.iter().map(|l| J::s(l.clone())).collect())) });
    }
    rep.alarm_total < 10
  });
  let mut total = Report::new();
  for p in parts { total.merge(p); }
  total
}
