//! Property checks built on generated programs and histories (classes of DESIGN section 4).

use crate::gen::{self, Case, GenOpts, HistClass};
use crate::hist::{CaseRunner, RunOpts};
use crate::report::Report;
use crate::util::{self, Rng};

#[derive(Clone, Copy, Debug)]
pub struct ClassPlan { pub name: &'static str, pub n: u64 }

pub fn make_case(class: &str, seed: u64, case_no: u64) -> Case {
  let mut rng = Rng::derive(seed ^ util::Fnv::default().0.wrapping_add(class.len() as u64 * 7919 + class.bytes().map(|b| b as u64).sum::<u64>()), case_no);
  let exact = class.contains("exact") || (class.contains("any") && rng.chance(2, 5));
  let soak = class.contains("soak");
  let big = soak || rng.chance(1, 10);
  // One case in 40 is "huge" (up to 40 tasks with up to 24 operations over up to 12 resources): fan-in / fan-out and
  // dependency counts beyond any small inline capacity or threshold. Drawn from a separate stream so that all other
  // cases stay what they were.
  let huge = !soak && !cfg!(miri) && Rng::derive(seed ^ 0x4875_6765, case_no).chance(1, 40);
  let o = if huge { let _ = rng.chance(1, 4); GenOpts { max_tasks: 40, exact_only: exact, max_ops: 24, max_src: 6, max_gen: 6 } }
    else { GenOpts { max_tasks: if big { 16 } else if rng.chance(1, 4) { 10 } else { 6 }, exact_only: exact, max_ops: if big { 7 } else { 5 }, max_src: 3, max_gen: 3 } };
  let mut prog = gen::gen_program(&mut rng, &o);
  // One program in five hands some of its tasks to pie through Box / Rc / Arc (separate stream, see `huge`).
  {
    let mut wr = Rng::derive(seed ^ 0x5772_6170, case_no);
    if wr.chance(1, 5) { for t in prog.tasks.iter_mut() { if wr.chance(1, 2) { t.wrap = 1 + wr.below(3) as u8; } } }
  }
  let init = gen::gen_init(&mut rng, &prog);
  let hc = if class.starts_with("td") { HistClass::TopDown } else if class.starts_with("pure") { HistClass::PureBottomUp } else { HistClass::Mixed };
  let n_builds = if soak { rng.range(120, 200) } else { rng.range(6, 12) };
  let mut prog = prog;
  let mut steps = gen::gen_history(&mut rng, &prog, hc, n_builds);
  if class.contains("multi") { gen::mutate_multi_checker(&mut rng, &mut prog); }
  if class.contains("faulty") { gen::mutate_faulty(&mut rng, &mut prog); }
  if class.contains("fc") { gen::add_arming(&mut rng, &prog, &mut steps); }
  for (tag, what) in [("inj-hr", gen::Inject::HiddenRead), ("inj-hw", gen::Inject::HiddenWrite), ("inj-ov", gen::Inject::Overlap), ("inj-cy", gen::Inject::Cycle), ("inj-rw", gen::Inject::SelfRw)] {
    if class.contains(tag) { gen::inject(&mut rng, &mut prog, what); if rng.chance(1, 4) { gen::inject(&mut rng, &mut prog, what); } }
  }
  if class.contains("inj-up") { gen::inject(&mut rng, &mut prog, gen::Inject::UserPanic); }
  if class.contains("inj-any") {
    // "inj-anyp" additionally injects task panics (used by C19; C20 is about diagnosed violations only: a task that
    // panics in the current state makes every from-scratch build abort before it can reach anything else)
    let kinds: &[gen::Inject] = if class.contains("inj-anyp") { &[gen::Inject::HiddenRead, gen::Inject::HiddenWrite, gen::Inject::Overlap, gen::Inject::Cycle, gen::Inject::UserPanic] } else { &[gen::Inject::HiddenRead, gen::Inject::HiddenWrite, gen::Inject::Overlap, gen::Inject::Cycle] };
    let n = rng.range(1, 3);
    for _ in 0..n { let what = *rng.pick(kinds); gen::inject(&mut rng, &mut prog, what); }
  }
  Case { prog, init, steps }
}

pub fn opts_for(which: &'static str, class: &'static str, tier: &str, seed: u64, case_no: u64) -> RunOpts {
  RunOpts {
    which, class,
    wellformed: !(class.contains("multi") || class.contains("faulty") || class.contains("inj-")),
    injected: class.contains("inj-"),
    pure_history: class.starts_with("pure") || class.starts_with("td"),
    idempotence_probe: (which == "C02" || (case_no % 4 == 0)) && !class.contains("inj-"),
    c03_probe: !class.starts_with("td") && !class.contains("inj-"),
    retry_same_session: false,
    fresh_pie: tier == "thorough" && case_no % 8 == 0,
    seed, case_no,
  }
}

pub fn run_classes(which: &'static str, tier: &str, seed: u64, plans: &[ClassPlan], replay: Option<(String, u64)>) -> Report {
  let mut total = Report::new();
  if let Some((class, case_no)) = replay {
    if class == "curated" {
      let all = curated_all(which, seed);
      let (_, case, opts) = &all[case_no as usize];
      let mut r = CaseRunner::new(case, opts, &mut total);
      r.known_as_alarm = true;
      r.run();
      return total;
    }
    let class: &'static str = plans.iter().map(|p| p.name).find(|n| *n == class).unwrap_or("td-any");
    let case = make_case(class, seed, case_no);
    let opts = opts_for(which, class, tier, seed, case_no);
    CaseRunner::new(&case, &opts, &mut total).run();
    return total;
  }
  let threads = util::threads();
  if tier == "miri" {
    for plan in plans {
      for i in 0..plan.n {
        let case = make_case(plan.name, seed, i);
        let opts = opts_for(which, plan.name, tier, seed, i);
        total.sample(|| case.to_json());
        CaseRunner::new(&case, &opts, &mut total).run();
      }
    }
    return total;
  }
  // curated library first (known-finding reproducers and hostile shapes); findings here are raised as alarms
  for (k, (name, case, opts)) in curated_all(which, seed).iter().enumerate() {
    let _ = (k, name);
    let mut r = CaseRunner::new(case, opts, &mut total);
    r.known_as_alarm = true;
    r.run();
    total.add("curated_cases", 1);
  }
  for plan in plans {
    let class = plan.name;
    let parts = util::parallel(plan.n, threads, 512, Report::new, |i, rep: &mut Report| {
      let case = make_case(class, seed, i);
      let opts = opts_for(which, class, tier, seed, i);
      rep.sample(|| case.to_json());
      CaseRunner::new(&case, &opts, rep).run();
      rep.alarm_total < 40
    });
    for r in parts { total.merge(r); }
    total.add(&format!("cases_{}", class), plan.n);
  }
  total
}

pub fn curated_all(which: &'static str, seed: u64) -> Vec<(&'static str, Case, RunOpts)> {
  let mut v = Vec::new();
  for (name, case) in gen::curated() {
    let k = v.len() as u64;
    v.push((name, case, RunOpts { which, class: "curated", wellformed: !name.starts_with("k2"), injected: false, pure_history: !name.starts_with("k1"), idempotence_probe: true, c03_probe: true, retry_same_session: false, fresh_pie: true, seed, case_no: k }));
  }
  for (name, case) in gen::curated_k3() {
    let k = v.len() as u64;
    v.push((name, case, RunOpts { which, class: "curated", wellformed: false, injected: true, pure_history: true, idempotence_probe: false, c03_probe: false, retry_same_session: false, fresh_pie: false, seed, case_no: k }));
  }
  v
}

/// C19, crash-point enumeration: for a well-formed case and a chosen session, the run is repeated with a panic at
/// every task operation k of that session; the rest of the history then runs on the same instance with all monitors.
pub fn run_crash_points(which: &'static str, tier: &str, seed: u64, n_cases: u64, replay: Option<u64>) -> Report {
  use crate::driver::Driver;
  use crate::gen::Step;
  use std::rc::Rc;
  let class: &'static str = "crash-points";
  let one = |i: u64, only_k: Option<u64>, rep: &mut Report| {
    // a third of the cases crash inside a BOTTOM-UP build (the property speaks of any aborted build; what must work
    // afterwards are top-down builds, so every later bottom-up step is turned into a top-down session)
    let crash_bottom_up = i % 3 == 2;
    let mut base = make_case(if crash_bottom_up { "pure-mixed" } else if i % 2 == 0 { "td-mixed" } else { "td-exact" }, seed ^ 0xC19, i);
    let builds: Vec<usize> = base.steps.iter().enumerate().filter(|(_, s)| if crash_bottom_up { matches!(s, Step::BottomUp(_)) } else { s.is_build() }).map(|(k, _)| k).collect();
    if builds.len() < 2 { return; }
    let mut rng = Rng::derive(seed ^ 0xC19C19, i);
    let b = builds[rng.below(builds.len() - 1)];
    let all: Vec<u32> = (0..base.prog.n_tasks() as u32).collect();
    for k in b + 1..base.steps.len() {
      if let Step::BottomUp(roots) = &base.steps[k] { let r = if roots.is_empty() { all.clone() } else { roots.clone() }; base.steps[k] = Step::TopDown(r); }
    }
    // half of the cases also enumerate crash points inside other user code (resource open, checkers, write functions)
    let user_code = i % 2 == 1;
    // dry run: how many task operations does session b perform?
    crate::log::clear();
    crate::cell::faults_reset();
    crate::cell::FAULTS.with(|f| f.borrow_mut().crash_in_user_code = user_code);
    let prog = Rc::new(base.prog.clone());
    let mut d: Driver<()> = Driver::new(prog.clone(), &base.init, ());
    let mut n_ops = 0;
    for (k, st) in base.steps.iter().enumerate() {
      match st {
        Step::Set(r, v) => d.set(*r, *v),
        Step::TopDown(roots) => { d.session(None, roots); if k == b { n_ops = crate::cell::FAULTS.with(|f| f.borrow().op_counter); break; } }
        Step::BottomUp(roots) => { let ch: Vec<u32> = d.pending.iter().copied().collect(); d.session(Some(ch), roots); d.pending.clear(); if k == b { n_ops = crate::cell::FAULTS.with(|f| f.borrow().op_counter); break; } }
        _ => {}
      }
    }
    if crash_bottom_up { rep.add("crash_point_sessions_bottom_up", 1); }
    let _ = crate::log::take();
    rep.add("crash_point_sessions", 1);
    rep.max("max_operations_in_crashed_session", n_ops);
    let ks: Vec<u64> = match only_k { Some(k) => vec![k], None => (1..=n_ops).collect() };
    for k in ks {
      let mut case = base.clone();
      case.steps.insert(b, if user_code { Step::PanicAtAny(k) } else { Step::PanicAt(k) });
      let mut opts = opts_for(which, class, tier, seed, i * 1000 + k);
      opts.idempotence_probe = false;
      // every other crash point: the panic is caught inside the pie session and the roots are required again through it
      opts.retry_same_session = !crash_bottom_up && (i + k) % 2 == 0;
      let mut r = CaseRunner::new(&case, &opts, rep);
      r.run();
      rep.add("crash_points", 1);
    }
  };
  let mut total = Report::new();
  if let Some(c) = replay { one(c / 1000, Some(c % 1000), &mut total); return total; }
  let parts = util::parallel(n_cases, util::threads(), 64, Report::new, |i, rep: &mut Report| { one(i, None, rep); rep.alarm_total < 40 });
  for r in parts { total.merge(r); }
  total
}

/// Exhaustive small-scope leg: every history of exactly `len` steps (for each len in `lens`) over the step alphabet of
/// each curated shape, with all monitors on. Histories that let a partial top-down build run while changes are pending
/// are mixed histories (K1 territory) and handled by the same classifier as the random mixed class.
pub fn run_exhaustive(which: &'static str, tier: &str, seed: u64, lens: &[usize], replay: Option<u64>) -> Report {
  let mut total = Report::new();
  let shapes = gen::shapes();
  let run_one = |shape: usize, len: usize, idx: u64, rep: &mut Report| {
    let case = gen::shape_case(shape, len, idx);
    let case_no = ((shape as u64) << 48) | ((len as u64) << 40) | idx;
    let mut opts = opts_for(which, "exhaustive", tier, seed, case_no);
    opts.pure_history = false;
    opts.idempotence_probe = which == "C02";
    opts.c03_probe = true;
    opts.fresh_pie = false;
    CaseRunner::new(&case, &opts, rep).run();
  };
  if let Some(c) = replay {
    run_one((c >> 48) as usize, ((c >> 40) & 0xff) as usize, c & ((1 << 40) - 1), &mut total);
    return total;
  }
  for (si, p) in shapes.iter().enumerate() {
    let a = gen::shape_alphabet(p).len() as u64;
    for &len in lens {
      let n = a.pow(len as u32);
      let parts = util::parallel(n, util::threads(), 64, Report::new, |i, rep: &mut Report| { run_one(si, len, i, rep); rep.alarm_total < 40 });
      for r in parts { total.merge(r); }
      total.add("exhaustive_histories", n);
      total.seen("exhaustive_families", format!("{}: all {} histories of {} steps over {} step kinds", p.label, n, len, a));
    }
  }
  total
}

/// File-backed slice (real PathBuf resource and real checkers inside builds) for C01 (top-down histories) and C03
/// (pure bottom-up histories).
pub fn run_files(which: &'static str, seed: u64, n: u64, replay: Option<u64>) -> Report {
  let workdir = if std::path::Path::new("/dev/shm").is_dir() { std::path::PathBuf::from("/dev/shm") } else { std::path::PathBuf::from(std::env::var("PV_WORK").unwrap_or_else(|_| "/verif/.work".into())) };
  let class = if which == "C03" { "pure-mixed" } else { "td-mixed" };
  let one = |i: u64, rep: &mut Report| {
    let case = make_case(class, seed ^ 0xF11E5, i);
    crate::fileleg::run_case(&case, which, seed, i, &workdir, rep);
  };
  let mut total = Report::new();
  if let Some(c) = replay { one(c, &mut total); return total; }
  let parts = util::parallel(n, util::threads(), 64, Report::new, |i, rep: &mut Report| { one(i, rep); rep.alarm_total < 20 });
  for r in parts { total.merge(r); }
  total.add("file_backed_cases", n);
  total
}
