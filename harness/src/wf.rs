//! Property checks built on generated programs and histories (classes of DESIGN section 4).

use crate::gen::{self, Case, GenOpts, HistClass};
use crate::hist::{CaseRunner, RunOpts};
use crate::report::Report;
use crate::util::{self, Rng};

#[derive(Clone, Copy, Debug)]
pub struct ClassPlan { pub name: &'static str, pub n: u64 }

pub fn make_case(class: &str, seed: u64, case_no: u64) -> Case {
  let mut rng = Rng::derive(seed ^ util::Fnv::default().0.wrapping_add(class.len() as u64 * 7919 + class.bytes().map(|b| b as u64).sum::<u64>()), case_no);
  let exact = class.contains("exact") || (class.contains("any") && rng.chance(2, 5));
  let o = GenOpts { max_tasks: if rng.chance(1, 4) { 10 } else { 6 }, exact_only: exact, max_ops: 5 };
  let prog = gen::gen_program(&mut rng, &o);
  let init = gen::gen_init(&mut rng, &prog);
  let hc = if class.starts_with("td") { HistClass::TopDown } else if class.starts_with("pure") { HistClass::PureBottomUp } else { HistClass::Mixed };
  let n_builds = rng.range(6, 12);
  let mut prog = prog;
  let mut steps = gen::gen_history(&mut rng, &prog, hc, n_builds);
  if class.contains("multi") { gen::mutate_multi_checker(&mut rng, &mut prog); }
  if class.contains("faulty") { gen::mutate_faulty(&mut rng, &mut prog); }
  if class.contains("fc") { gen::add_arming(&mut rng, &prog, &mut steps); }
  Case { prog, init, steps }
}

pub fn opts_for(which: &'static str, class: &'static str, tier: &str, seed: u64, case_no: u64) -> RunOpts {
  RunOpts {
    which, class,
    wellformed: !(class.contains("multi") || class.contains("faulty")),
    pure_history: class.starts_with("pure") || class.starts_with("td"),
    idempotence_probe: which == "C02" || (case_no % 4 == 0),
    c03_probe: !class.starts_with("td"),
    fresh_pie: tier == "thorough" && case_no % 8 == 0,
    seed, case_no,
  }
}

pub fn run_classes(which: &'static str, tier: &str, seed: u64, plans: &[ClassPlan], replay: Option<(String, u64)>) -> Report {
  let mut total = Report::new();
  if let Some((class, case_no)) = replay {
    if class == "curated" {
      let (name, case) = &gen::curated()[case_no as usize];
      let opts = RunOpts { which, class: "curated", wellformed: !name.starts_with("k2"), pure_history: !name.starts_with("k1"), idempotence_probe: true, c03_probe: true, fresh_pie: true, seed, case_no };
      let mut r = CaseRunner::new(case, &opts, &mut total);
      r.known_as_alarm = true;
      r.run();
      return total;
    }
    let class: &'static str = plans.iter().map(|p| p.name).find(|n| *n == class).unwrap_or("td-any");
    let case = make_case(class, seed, case_no);
    let opts = opts_for(which, class, tier, seed, case_no);
    CaseRunner::new(&case, &opts, &mut total).run();
    return total;
  }
  let threads = util::threads();
  // curated library first (known-finding reproducers and hostile shapes); findings here are raised as alarms
  for (k, (name, case)) in gen::curated().iter().enumerate() {
    let wf = !name.starts_with("k2");
    let pure = !name.starts_with("k1");
    let opts = RunOpts { which, class: "curated", wellformed: wf, pure_history: pure, idempotence_probe: true, c03_probe: true, fresh_pie: true, seed, case_no: k as u64 };
    let mut r = CaseRunner::new(case, &opts, &mut total);
    r.known_as_alarm = true;
    r.run();
    total.add("curated_cases", 1);
  }
  for plan in plans {
    let class = plan.name;
    let parts = util::parallel(plan.n, threads, 64, Report::new, |i, rep: &mut Report| {
      let case = make_case(class, seed, i);
      let opts = opts_for(which, class, tier, seed, i);
      rep.sample(|| case.to_json());
      CaseRunner::new(&case, &opts, rep).run();
      rep.alarm_total < 40
    });
    for r in parts { total.merge(r); }
    total.add(&format!("cases_{}", class), plan.n);
  }
  total
}
