//! Per-run accumulator: what the monitors observed, what they flagged.

use std::collections::{BTreeMap, BTreeSet};

use crate::util::J;

/// An alarm raised by a monitor. `signature` is a short stable string identifying *what kind* of thing failed (used to
/// match against known_findings.json); `detail` carries the witness (program, history, event window).
#[derive(Clone, Debug)]
pub struct Alarm {
  pub property: &'static str,
  pub signature: String,
  pub summary: String,
  pub case: J,
  pub detail: J,
}

#[derive(Default, Debug)]
pub struct Report {
  pub evaluations: u64,
  pub nontrivial: BTreeSet<u64>,
  pub counters: BTreeMap<String, u64>,
  pub sets: BTreeMap<String, BTreeSet<String>>,
  pub samples: Vec<J>,
  pub alarms: Vec<Alarm>,
  pub alarm_total: u64,
  pub known_hits: BTreeMap<String, u64>,
  pub inconclusive: Vec<String>,
  pub rule: String,
  pub exhaustive: bool,
  pub assumptions: Vec<String>,
}

pub const MAX_ALARMS_KEPT: usize = 8;
pub const MAX_SAMPLES: usize = 3;

impl Report {
  pub fn new() -> Self { Self::default() }
  #[inline]
  pub fn count(&mut self, k: &str) { self.add(k, 1); }
  #[inline]
  pub fn add(&mut self, k: &str, n: u64) {
    if let Some(c) = self.counters.get_mut(k) { *c += n; } else { self.counters.insert(k.to_string(), n); }
  }
  pub fn max(&mut self, k: &str, n: u64) {
    let e = self.counters.entry(k.to_string()).or_insert(0);
    if n > *e { *e = n; }
  }
  pub fn get(&self, k: &str) -> u64 { self.counters.get(k).copied().unwrap_or(0) }
  pub fn seen(&mut self, set: &str, item: impl Into<String>) {
    let s = self.sets.entry(set.to_string()).or_default();
    if s.len() < 4096 { s.insert(item.into()); }
  }
  pub fn nontrivial(&mut self, digest: u64) { if self.nontrivial.len() < 64_000_000 { self.nontrivial.insert(digest); } }
  pub fn sample(&mut self, f: impl FnOnce() -> J) { if self.samples.len() < MAX_SAMPLES { self.samples.push(f()); } }
  pub fn alarm(&mut self, a: Alarm) {
    self.alarm_total += 1;
    // Keep the first few, but at most two per signature so that different kinds of failure stay visible.
    let same = self.alarms.iter().filter(|x| x.signature == a.signature && x.property == a.property).count();
    if self.alarms.len() < MAX_ALARMS_KEPT * 4 && same < 2 { self.alarms.push(a); }
  }
  /// Coverage floor: if `ok` is false the run is inconclusive (it "ran but saw nothing").
  pub fn floor(&mut self, what: &str, ok: bool) { if !ok { self.inconclusive.push(format!("coverage floor missed: {}", what)); } }
  pub fn known_hit(&mut self, signature: &str) { *self.known_hits.entry(signature.to_string()).or_insert(0) += 1; }

  pub fn merge(&mut self, other: Report) {
    self.evaluations += other.evaluations;
    for d in other.nontrivial { self.nontrivial(d); }
    for (k, v) in other.counters {
      if k.starts_with("max_") { self.max(&k, v); } else { self.add(&k, v); }
    }
    for (k, v) in other.sets { let s = self.sets.entry(k).or_default(); s.extend(v); }
    for s in other.samples { if self.samples.len() < MAX_SAMPLES { self.samples.push(s); } }
    self.alarm_total += other.alarm_total;
    for a in other.alarms {
      let same = self.alarms.iter().filter(|x| x.signature == a.signature && x.property == a.property).count();
      if self.alarms.len() < MAX_ALARMS_KEPT * 4 && same < 2 { self.alarms.push(a); }
    }
    for (k, v) in other.known_hits { *self.known_hits.entry(k).or_insert(0) += v; }
    self.inconclusive.extend(other.inconclusive);
    if self.rule.is_empty() { self.rule = other.rule; }
    self.exhaustive |= other.exhaustive;
  }

  pub fn to_json(&self) -> J {
    let mut counters = J::obj();
    for (k, v) in &self.counters { counters.set(k, J::from(*v)); }
    let mut sets = J::obj();
    for (k, v) in &self.sets { sets.set(k, J::A(v.iter().map(|s| J::s(s.clone())).collect())); }
    let mut known = J::obj();
    for (k, v) in &self.known_hits { known.set(k, J::from(*v)); }
    J::obj()
      .with("evaluations", J::from(self.evaluations))
      .with("distinct_nontrivial", J::from(self.nontrivial.len()))
      .with("counters", counters)
      .with("sets", sets)
      .with("samples", J::A(self.samples.clone()))
      .with("alarm_total", J::from(self.alarm_total))
      .with("alarms", J::A(self.alarms.iter().map(|a| J::obj()
        .with("property", J::s(a.property))
        .with("signature", J::s(a.signature.clone()))
        .with("summary", J::s(a.summary.clone()))
        .with("case", a.case.clone())
        .with("detail", a.detail.clone())).collect()))
      .with("known_hits", known)
      .with("inconclusive", J::A(self.inconclusive.iter().map(|s| J::s(s.clone())).collect()))
      .with("rule", J::s(self.rule.clone()))
      .with("exhaustive", J::B(self.exhaustive))
      .with("assumptions", J::A(self.assumptions.iter().map(|s| J::s(s.clone())).collect()))
  }
}
