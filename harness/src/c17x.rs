//! C17, second leg: `CompositeTracker` forwarding (all 23 methods, identical streams) and `EventTracker` recording,
//! indices and query helpers, compared with an independent implementation over the stream a full-fidelity recorder saw.

use std::collections::BTreeSet;
use std::rc::Rc;

use pie::tracker::event::{Event, EventTracker};
use pie::tracker::CompositeTracker;
use pie::trait_object::KeyObj;

use crate::cell::Res;
use crate::driver::Driver;
use crate::gen::{Case, Step};
use crate::log::{TrkEv, ALL_TM, TM};
use crate::prog::Prog;
use crate::report::{Alarm, Report};
use crate::trk::{rec_trk, RecTrk};
use crate::util::J;

/// Three full recorders at tree positions reached through (first), (second, first) and (second, second, second): a
/// forwarding slip that affects only the first or only the second child of a CompositeTracker makes at least two of
/// them differ (a single nested pair would let a slip applied twice cancel out).
type Comp = CompositeTracker<RecTrk, CompositeTracker<RecTrk, CompositeTracker<EventTracker, RecTrk>>>;

fn recorded_kind(m: TM) -> bool {
  matches!(m, TM::BuildStart | TM::BuildEnd | TM::RequireStart | TM::RequireEnd | TM::ReadStart | TM::ReadEnd | TM::WriteStart | TM::WriteEnd | TM::ExecuteStart | TM::ExecuteEnd)
}

/// Renders an `Event` the way the full-fidelity recorder renders the corresponding callback.
fn render_event(e: &Event) -> (TM, String, String, String, String, Option<usize>) {
  match e {
    Event::BuildStart => (TM::BuildStart, String::new(), String::new(), String::new(), String::new(), None),
    Event::BuildEnd => (TM::BuildEnd, String::new(), String::new(), String::new(), String::new(), None),
    Event::RequireStart(d) => (TM::RequireStart, format!("{:?}", d.task), format!("{:?}", d.checker), String::new(), String::new(), Some(d.index)),
    Event::RequireEnd(d) => (TM::RequireEnd, format!("{:?}", d.task), format!("{:?}", d.checker), format!("{:?}", d.stamp), format!("{:?}", d.output), Some(d.index)),
    Event::ReadStart(d) => (TM::ReadStart, format!("{:?}", d.resource), format!("{:?}", d.checker), String::new(), String::new(), Some(d.index)),
    Event::ReadEnd(d) => (TM::ReadEnd, format!("{:?}", d.resource), format!("{:?}", d.checker), format!("{:?}", d.stamp), String::new(), Some(d.index)),
    Event::WriteStart(d) => (TM::WriteStart, format!("{:?}", d.resource), format!("{:?}", d.checker), String::new(), String::new(), Some(d.index)),
    Event::WriteEnd(d) => (TM::WriteEnd, format!("{:?}", d.resource), format!("{:?}", d.checker), format!("{:?}", d.stamp), String::new(), Some(d.index)),
    Event::ExecuteStart(d) => (TM::ExecuteStart, format!("{:?}", d.task), String::new(), String::new(), String::new(), Some(d.index)),
    Event::ExecuteEnd(d) => (TM::ExecuteEnd, format!("{:?}", d.task), String::new(), String::new(), format!("{:?}", d.output), Some(d.index)),
  }
}

struct Keys { tasks: Vec<(String, Box<dyn KeyObj>)>, resources: Vec<(String, Box<dyn KeyObj>)> }

fn first(proj: &[TrkEv], m: TM, subject: &str) -> Option<usize> { proj.iter().position(|e| e.m == m && e.subject == subject) }

/// Compares every helper with the reference on `proj` (the projection of the recorder's stream). Returns (helper name,
/// message) for the first disagreement of each helper.
fn check_helpers(et: &EventTracker, proj: &[TrkEv], keys: &Keys, helper_calls: &mut u64) -> Vec<(String, String)> {
  let mut bad: Vec<(String, String)> = Vec::new();
  let mut flag = |name: &str, msg: String| { if !bad.iter().any(|(n, _)| n == name) { bad.push((name.to_string(), msg)); } };
  let slice = et.slice();
  // per-event helpers
  for (i, e) in slice.iter().enumerate() {
    let p = &proj[i];
    *helper_calls += 4;
    if e.is_build_start() != (p.m == TM::BuildStart) { flag("is_build_start", format!("event #{} ({:?}): is_build_start() = {}", i, p.m, e.is_build_start())); }
    if e.is_build_end() != (p.m == TM::BuildEnd) { flag("is_build_end", format!("event #{} ({:?}): is_build_end() = {}", i, p.m, e.is_build_end())); }
    if e.is_execute() != matches!(p.m, TM::ExecuteStart | TM::ExecuteEnd) { flag("is_execute", format!("event #{} ({:?}): is_execute() = {}", i, p.m, e.is_execute())); }
    // keys of both kinds are offered to both families of matchers: a task key must never match a resource event and
    // vice versa, even when the numbers coincide
    for (name, key) in keys.tasks.iter().chain(keys.resources.iter()) {
      let k = key.as_ref();
      let same = p.subject == *name;
      *helper_calls += 10;
      macro_rules! m {
        ($f:ident, $tm:expr) => {
          let got = e.$f(k).map(|d| d.index);
          let want = if p.m == $tm && same { Some(i) } else { None };
          if got != want { flag(stringify!($f), format!("event #{} ({:?} {}): {}({}) = {:?}, expected {:?}", i, p.m, p.subject, stringify!($f), name, got, want)); }
        };
      }
      m!(match_require_start, TM::RequireStart);
      m!(match_require_end, TM::RequireEnd);
      m!(match_read_start, TM::ReadStart);
      m!(match_read_end, TM::ReadEnd);
      m!(match_write_start, TM::WriteStart);
      m!(match_write_end, TM::WriteEnd);
      m!(match_execute_start, TM::ExecuteStart);
      m!(match_execute_end, TM::ExecuteEnd);
      let want = matches!(p.m, TM::ExecuteStart | TM::ExecuteEnd) && same;
      if e.is_execute_of(k) != want { flag("is_execute_of", format!("event #{} ({:?} {}): is_execute_of({}) = {}", i, p.m, p.subject, name, e.is_execute_of(k))); }
    }
  }
  // whole-stream helpers
  *helper_calls += 6;
  if et.iter().count() != slice.len() { flag("iter", format!("iter() yields {} events, slice() has {}", et.iter().count(), slice.len())); }
  let want_any_exec = proj.iter().any(|e| matches!(e.m, TM::ExecuteStart | TM::ExecuteEnd));
  if et.any_execute() != want_any_exec { flag("any_execute", format!("any_execute() = {}", et.any_execute())); }
  if et.any(|e| e.is_build_start()) != proj.iter().any(|e| e.m == TM::BuildStart) { flag("any", "any(is_build_start) disagrees".into()); }
  if et.one(|e| e.is_build_start()) != (proj.iter().filter(|e| e.m == TM::BuildStart).count() == 1) { flag("one", "one(is_build_start) disagrees".into()); }
  if et.one(|e| e.is_execute()) != (proj.iter().filter(|e| matches!(e.m, TM::ExecuteStart | TM::ExecuteEnd)).count() == 1) { flag("one", "one(is_execute) disagrees".into()); }
  for (name, key) in keys.tasks.iter().chain(keys.resources.iter()) {
    let k = key.as_ref();
    *helper_calls += 22;
    if et.find_map(|e| e.match_execute_end(k)).map(|d| d.index) != first(proj, TM::ExecuteEnd, name) { flag("find_map", format!("find_map(match_execute_end({})) disagrees", name)); }
    macro_rules! pair {
      ($f:ident, $range:ident, $s:expr, $e:expr) => {
        let want = first(proj, $s, name).zip(first(proj, $e, name));
        let got = et.$f(k).map(|(s, e)| (s.index, e.index));
        if got != want { flag(stringify!($f), format!("{}({}) = {:?}, expected {:?}", stringify!($f), name, got, want)); }
        let gotr = et.$range(k);
        let wantr = want.map(|(s, e)| s..=e);
        if gotr != wantr { flag(stringify!($range), format!("{}({}) = {:?}, expected {:?}", stringify!($range), name, gotr, wantr)); }
      };
    }
    pair!(first_require, first_require_range, TM::RequireStart, TM::RequireEnd);
    pair!(first_read, first_read_range, TM::ReadStart, TM::ReadEnd);
    pair!(first_write, first_write_range, TM::WriteStart, TM::WriteEnd);
    pair!(first_execute, first_execute_range, TM::ExecuteStart, TM::ExecuteEnd);
    macro_rules! end1 {
      ($f:ident, $fi:ident, $e:expr) => {
        let want = first(proj, $e, name);
        let got = et.$f(k).map(|d| d.index);
        if got != want { flag(stringify!($f), format!("{}({}) = {:?}, expected {:?}", stringify!($f), name, got, want)); }
        let goti = et.$fi(k).copied();
        if goti != want { flag(stringify!($fi), format!("{}({}) = {:?}, expected {:?}", stringify!($fi), name, goti, want)); }
      };
    }
    end1!(first_read_end, first_read_end_index, TM::ReadEnd);
    end1!(first_write_end, first_write_end_index, TM::WriteEnd);
    end1!(first_execute_end, first_execute_end_index, TM::ExecuteEnd);
    let n_start = proj.iter().filter(|e| e.m == TM::ExecuteStart && e.subject == *name).count();
    let any_of = proj.iter().any(|e| matches!(e.m, TM::ExecuteStart | TM::ExecuteEnd) && e.subject == *name);
    if et.any_execute_of(k) != any_of { flag("any_execute_of", format!("any_execute_of({}) = {}, expected {}", name, et.any_execute_of(k), any_of)); }
    if et.one_execute_of(k) != (n_start == 1) { flag("one_execute_of", format!("one_execute_of({}) = {}, but {} execute_start events", name, et.one_execute_of(k), n_start)); }
  }
  bad
}

pub fn run_case(case: &Case, rep: &mut Report, seed: u64, case_no: u64, class: &str) {
  crate::log::clear();
  crate::cell::faults_reset();
  let prog = Rc::new(case.prog.clone());
  let tracker: Comp = CompositeTracker(rec_trk(), CompositeTracker(rec_trk(), CompositeTracker(EventTracker::default(), rec_trk())));
  let mut drv: Driver<Comp> = Driver::new(prog.clone(), &case.init, tracker);
  let keys = Keys {
    tasks: (0..prog.n_tasks() as u32).map(|t| (format!("T{}", t), crate::prog::key_of_task(&prog, t))).collect(),
    resources: (0..prog.n_res.max(prog.n_tasks()) as u32).map(|r| (format!("R{}", r), Box::new(Res(r)) as Box<dyn KeyObj>)).collect(),
  };
  rep.evaluations += 1;
  let mut seen: BTreeSet<TM> = BTreeSet::new();
  let mut helper_calls = 0u64;
  let mut nontrivial = false;
  let mut raise = |rep: &mut Report, sig: String, msg: String, step: usize| {
    rep.alarm(Alarm {
      property: "C17", signature: sig, summary: format!("[{} case {} step {}] {}", class, case_no, step, msg),
      case: J::obj().with("sub", J::s(class)).with("case", J::from(case_no)).with("seed", J::from(seed)),
      detail: case.to_json().with("failed_at_step", J::from(step)).with("message", J::s(msg)),
    });
  };
  for (si, step) in case.steps.iter().enumerate() {
    let rec = match step {
      Step::Set(r, v) => { drv.set(*r, *v); continue; }
      Step::Arm(o, r, on) => { drv.arm(*o, *r, *on); continue; }
      Step::PanicAt(_) | Step::PanicAtAny(_) => continue,
      Step::TopDown(roots) => drv.session(None, roots),
      Step::BottomUp(roots) => { let ch: Vec<u32> = drv.pending.iter().copied().collect(); let r = drv.session(Some(ch), roots); drv.pending.clear(); r }
    };
    let t = drv.pie.tracker();
    let r1: &Vec<TrkEv> = &(t.0).0 .0;
    let r2: &Vec<TrkEv> = &((t.1).0).0 .0;
    let et: &EventTracker = &((t.1).1).0;
    let r3: &Vec<TrkEv> = &(((t.1).1).1).0 .0;
    for e in r1.iter() { seen.insert(e.m); }
    // 1. composite: identical streams at all three positions
    for (name, other) in [("(second, first)", r2), ("(second, second, second)", r3)] {
      if r1 != other {
        let k = r1.iter().zip(other.iter()).position(|(a, b)| a != b).unwrap_or(r1.len().min(other.len()));
        raise(rep, "composite-streams-differ".into(), format!("recorders at positions (first) and {} of nested CompositeTrackers saw different streams: first difference at event {}: {:?} vs {:?}", name, k, r1.get(k), other.get(k)), si);
        return;
      }
    }
    if rec.aborted.is_some() { continue; }
    // 2. EventTracker: stored events = projection of the stream since the last build_start
    let from = r1.iter().rposition(|e| e.m == TM::BuildStart).unwrap_or(0);
    let proj: Vec<TrkEv> = r1[from..].iter().filter(|e| recorded_kind(e.m)).cloned().collect();
    let slice = et.slice();
    let mut ok = slice.len() == proj.len();
    if ok {
      for (i, (e, p)) in slice.iter().zip(proj.iter()).enumerate() {
        let (m, subject, checker, stamp, extra, index) = render_event(e);
        if m != p.m || subject != p.subject || checker != p.checker || stamp != p.stamp || extra != p.extra || index.map_or(false, |x| x != i) {
          raise(rep, "event-tracker-record".into(), format!("EventTracker stored {:?} (index {:?}) at position {}, but the tracker was given {:?}", (m, subject, checker, stamp, extra), index, i, p), si);
          ok = false;
          break;
        }
      }
    } else {
      raise(rep, "event-tracker-length".into(), format!("EventTracker holds {} events for the last build, the recorder saw {} recordable ones", slice.len(), proj.len()), si);
    }
    if !ok { return; }
    if proj.len() >= 6 { nontrivial = true; }
    // 3. helpers
    for (name, msg) in check_helpers(et, &proj, &keys, &mut helper_calls) {
      raise(rep, format!("helper:{}", name), format!("EventTracker/Event helper `{}` disagrees with the recorded stream: {}", name, msg), si);
    }
    rep.add("composite_sessions", 1);
    rep.add("composite_events_compared", r1.len() as u64);
    // keep memory bounded: the recorders are append-only; restart them per session
    let t = drv.pie.tracker_mut();
    (t.0).0 .0.clear();
    ((t.1).0).0 .0.clear();
    (((t.1).1).1).0 .0.clear();
  }
  for m in seen { rep.seen("tracker_methods_forwarded", format!("{:?}", m)); }
  rep.add("helper_calls_compared", helper_calls);
  if nontrivial { rep.nontrivial(case.digest() ^ 0xC17); }
}

pub fn all_methods_seen(rep: &Report) -> bool {
  rep.sets.get("tracker_methods_forwarded").map_or(false, |s| ALL_TM.iter().all(|m| s.contains(&format!("{:?}", m))))
}
